//! Workload mix per property (which start families, player policies, step caps, fan-out and
//! fault rates the per-run swarm draws from) and the number of runs per tier.
use crate::driver::Mix;

// families: [Setup, Random, Sparse, TrapDense, Goal, Cage, Library, Blocked, Edge, PushPull, TrapCluster, Motif, Mobility, Jam, Confront, Elimination]
// policies: [Uniform, PassHappy, Shuffler, Pusher, TrapSeeker, RabbitRunner, PassEarly, Rotator, Shuttler, Repeater]
pub fn mix_for(prop: u32) -> Mix {
    let general = Mix {
        families: [1, 6, 1, 3, 1, 0, 1, 2, 3, 3, 1, 2, 1, 2, 2, 1],
        policies: [3, 1, 1, 3, 1, 1, 0, 2, 1, 1],
        caps: &[40, 150, 600],
        fan: &[0.0, 0.05, 0.3],
        fan2: &[0.0, 0.01, 0.03],
        rt: &[0.0, 0.02],
        restart: &[0.0, 0.01, 0.1],
        fork: &[0.0, 0.02, 0.2],
        dfs: &[0.0, 0.0, 0.002, 0.006],
    };
    match prop {
        1 => Mix { families: [1, 6, 1, 3, 1, 0, 1, 2, 3, 3, 2, 4, 1, 2, 4, 1], fan2: &[0.0, 0.02, 0.05], ..general },
        2 => Mix { families: [1, 3, 1, 7, 1, 0, 1, 1, 1, 3, 3, 2, 0, 2, 1, 2], policies: [2, 1, 0, 3, 4, 0, 0, 4, 1, 1], ..general },
        3 => Mix { families: [2, 3, 2, 1, 1, 1, 1, 1, 3, 3, 1, 1, 0, 2, 0, 2], policies: [2, 5, 1, 1, 1, 1, 1, 1, 2, 1], caps: &[40, 150, 600, 3000], ..general },
        4 => Mix { dfs: &[0.0, 0.002], families: [0, 1, 2, 1, 9, 2, 1, 2, 1, 0, 0, 0, 0, 3, 0, 2], policies: [2, 1, 1, 1, 2, 4, 1, 1, 2, 2], caps: &[6, 40, 150, 600], fan: &[0.0, 0.05], fan2: &[0.0, 0.02], ..general },
        5 | 6 => Mix { dfs: &[0.0, 0.001], families: [0, 1, 8, 0, 0, 2, 1, 1, 0, 0, 0, 0, 1, 1, 0, 1], policies: [1, 2, 6, 0, 0, 0, 3, 1, 4, 5], caps: &[150, 600, 3000], fan: &[0.0, 0.02], fan2: &[0.0], ..general },
        7 => Mix { dfs: &[0.0, 0.001], families: [1, 1, 5, 0, 1, 4, 1, 3, 0, 0, 0, 0, 0, 3, 0, 2], policies: [1, 2, 5, 0, 0, 0, 4, 1, 4, 5], caps: &[150, 600, 3000], fan: &[0.0, 0.02], fan2: &[0.0, 0.01], ..general },
        8 => Mix { families: [2, 3, 4, 3, 0, 1, 1, 0, 3, 3, 1, 2, 0, 2, 1, 1], policies: [3, 2, 3, 1, 3, 0, 1, 2, 2, 2], fan2: &[0.0, 0.03, 0.06], fork: &[0.02, 0.1, 0.3], ..general },
        9 => Mix { dfs: &[0.0], families: [1, 0, 0, 0, 0, 0, 0, 0, 0, 0, 0, 0, 0, 0, 0, 0], caps: &[33, 40], fan: &[0.0, 0.3, 1.0], fan2: &[0.0], rt: &[0.0, 0.05], restart: &[0.0], fork: &[0.0, 0.05], ..general },
        10 => Mix { families: [3, 6, 1, 3, 1, 0, 1, 2, 3, 3, 1, 2, 0, 2, 1, 1], ..general },
        11 => Mix { families: [0, 4, 2, 2, 2, 1, 1, 5, 5, 2, 1, 1, 1, 5, 2, 1], ..general },
        12 => Mix { families: [1, 6, 1, 3, 1, 0, 1, 2, 3, 3, 1, 2, 1, 2, 4, 1], policies: [2, 1, 0, 6, 1, 0, 0, 2, 1, 1], fan2: &[0.0, 0.02, 0.05], ..general },
        13 => Mix { families: [1, 3, 0, 8, 1, 0, 1, 0, 1, 3, 3, 2, 0, 2, 3, 3], policies: [2, 0, 0, 3, 4, 0, 0, 4, 1, 1], caps: &[40, 150], fan: &[1.0], fan2: &[0.0, 0.01], ..general },
        14 => Mix { fan: &[0.05, 0.3, 1.0], restart: &[0.0, 0.05, 0.2], fork: &[0.0, 0.05, 0.3], ..general },
        15 => Mix { families: [2, 4, 1, 2, 1, 0, 1, 1, 3, 3, 1, 1, 0, 2, 1, 1], rt: &[1.0], restart: &[0.02, 0.1], fan: &[0.0], fan2: &[0.0], caps: &[40, 150], ..general },
        16 => Mix { families: [2, 4, 1, 2, 1, 0, 1, 1, 3, 3, 1, 1, 0, 2, 1, 1], fan: &[0.0, 0.3], ..general },
        19 => Mix { families: [2, 4, 2, 3, 2, 1, 1, 2, 3, 3, 1, 2, 3, 2, 1, 1], policies: [3, 1, 1, 2, 1, 1, 1, 2, 1, 1], caps: &[40, 150, 600], fan: &[1.0], fan2: &[0.0, 0.02], rt: &[0.05], ..general },
        _ => general,
    }
}

/// (quick, thorough) number of runs
pub fn runs_for(prop: u32) -> (u64, u64) {
    match prop {
        1 => (36_000, 700_000),
        2 => (40_000, 800_000),
        3 => (30_000, 600_000),
        4 => (300_000, 6_000_000),
        5 | 6 => (120_000, 2_500_000),
        7 => (120_000, 1_500_000),
        8 => (40_000, 600_000),
        9 => (450_000, 4_000_000),
        10 | 12 => (40_000, 700_000),
        13 | 14 => (36_000, 600_000),
        15 => (30_000, 500_000),
        19 => (24_000, 400_000),
        _ => (30_000, 600_000),
    }
}
