//! Batch runner for simulated games: seeded runs spread over worker threads, deterministic
//! merge, violation reporting with minimisation and fresh-process replay, evidence parts.
use crate::ctx::*;
use crate::driver::*;
use crate::mix::*;
use crate::report::*;
use crate::rng::{mix as mix_seed, Rng};
use crate::scenario::*;
use crate::world::EqTable;
use serde_json::{json, Value};
use std::collections::BTreeMap;
use std::panic::{catch_unwind, AssertUnwindSafe};
use std::sync::atomic::{AtomicU64, Ordering};
use std::sync::Mutex;
use std::time::Instant;

pub struct Failure {
    pub run: u64,
    pub prop: u32,
    pub monitor: String,
    pub detail: String,
    pub start: Start,
    pub ops: Vec<String>,
    pub op_index: usize,
}

pub enum RunResult {
    Clean,
    Fail(Failure),
    Foreign,
    Harness(String),
}

/// one run under catch_unwind; attributes panics by the engine-call breadcrumb
pub fn guarded_execute(ctx: &mut Ctx, eq: &mut EqTable, start: &Start, src: &mut dyn Source, trace: &mut Vec<String>, run: u64) -> (RunResult, Option<RunOutcome>) {
    guarded_execute_from(ctx, eq, start, None, src, trace, run, &mut vec![])
}

pub fn guarded_execute_from(ctx: &mut Ctx, eq: &mut EqTable, start: &Start, snapshot: Option<crate::world::World>, src: &mut dyn Source, trace: &mut Vec<String>, run: u64, candidates: &mut Vec<Candidate>) -> (RunResult, Option<RunOutcome>) {
    crumb_take();
    last_panic_take();
    set_quiet(true);
    let r = catch_unwind(AssertUnwindSafe(|| execute_from(ctx, eq, start, snapshot, src, trace, candidates)));
    set_quiet(false);
    let own_prop = |mask: PropMask, own: PropMask| -> u32 { (1..=20).find(|n| mask & own & p(*n) != 0).unwrap_or(0) };
    match r {
        Ok(out) => {
            let res = match &out.stop {
                None => RunResult::Clean,
                Some(Stop::Violation(f)) => RunResult::Fail(Failure { run, prop: own_prop(f.owners, ctx.own), monitor: f.monitor.to_string(), detail: f.detail.clone(), start: start.clone(), ops: trace.clone(), op_index: out.op_index }),
                Some(Stop::ForeignAbort(_)) => RunResult::Foreign,
                Some(Stop::Invalid(m)) => RunResult::Harness(format!("invalid operation in a generated run: {}", m)),
                Some(Stop::Panic { .. }) => unreachable!(),
            };
            (res, Some(out))
        }
        Err(_) => {
            let msg = last_panic_take().unwrap_or_default();
            match crumb_take() {
                Some(call) => {
                    ctx.stats.inc("engine_panics");
                    // a panic belongs to C19 and to the properties whose observable was being asked
                    let owners = p(19) | panic_owners(call);
                    if ctx.own & owners != 0 {
                        let monitor = "panic".to_string();
                        (RunResult::Fail(Failure { run, prop: own_prop(owners, ctx.own), monitor, detail: format!("engine call {} panicked instead of returning: {}", call, msg), start: start.clone(), ops: trace.clone(), op_index: trace.len().saturating_sub(1) }), None)
                    } else {
                        (RunResult::Foreign, None)
                    }
                }
                None => (RunResult::Harness(format!("harness panic: {}", msg)), None),
            }
        }
    }
}

/// which properties' observables a panicking engine call belongs to (besides C19)
pub fn panic_owners(call: &str) -> PropMask {
    match call {
        "valid_actions_no_rep" => p(1) | p(12),
        "valid_actions" => p(6) | p(7) | p(5),
        "take_action" => p(2) | p(3),
        "is_terminal" => p(4) | p(7),
        "has_move" | "can_pass(true)" | "can_pass(false)" => p(7),
        "transposition_hash" | "Zobrist::from_piece_board" | "board_state_hash_with_push_pull_state" | "hash_history" | "hash_history.iter" => p(8),
        "piece_board_for_step" | "previous_piece_boards" => p(14),
        "trapped_animal_for_action" => p(13),
        "Display" => p(10) | p(15),
        "GameState::from_str" => p(15),
        "Action::from_str" => p(16),
        "piece_board" | "piece_type_at_square" | "bits_for_piece" | "bits_by_piece_type" | "player_piece_mask" => p(10),
        "current_step" => p(3),
        _ => 0,
    }
}

pub struct BatchConfig {
    pub prop: u32,
    pub own: PropMask,
    pub tier: String,
    pub seed: u64,
    pub runs: u64,
    pub workers: usize,
    pub mix: Mix,
    pub wall_cap_s: f64,
    pub digests: Option<String>,
}

pub struct BatchResult {
    pub stats: Stats,
    pub evals: u64,
    pub distinct: FpSet,
    pub states: FpSet,
    pub capped: bool,
    pub failures: Vec<Failure>,
    pub harness: Option<String>,
    pub runs_done: u64,
    pub foreign: u64,
    pub samples: Vec<Value>,
    pub digests: BTreeMap<u64, u64>,
    pub wall_s: f64,
    pub truncated: bool,
}

/// a rare state found by an earlier generation, with the operations that reproduce it
pub struct CorpusEntry {
    /// cumulative sampling weight up to and including this entry
    pub cum_weight: u64,
    pub start: Start,
    pub ops: Vec<String>,
    pub world: crate::world::World,
}

pub fn run_one(ctx: &mut Ctx, eq: &mut EqTable, cfg: &BatchConfig, idx: u64, sample: bool) -> (RunResult, Option<Value>, u64) {
    let (a, b, c, _) = run_one_guided(ctx, eq, cfg, idx, sample, &[]);
    (a, b, c)
}

pub fn run_one_guided(ctx: &mut Ctx, eq: &mut EqTable, cfg: &BatchConfig, idx: u64, sample: bool, corpus: &[CorpusEntry]) -> (RunResult, Option<Value>, u64, (Start, Vec<Candidate>)) {
    let mut rng = Rng::new(mix_seed(cfg.seed, idx));
    let faults = idx % 4 != 0;
    // History is an input that must not leak into observables that do not mention it: one run in
    // six of every property's batch uses the repetition-heavy workload of C05/C06 (shufflers,
    // shuttlers, repeaters on sparse boards, long caps) instead of the property's own mix.
    let borrowed_mix = !matches!(cfg.prop, 5 | 6 | 7 | 9) && idx % 6 == 5;
    let rep_mix;
    let mix = if borrowed_mix {
        ctx.stats.inc("runs.repetition_workload");
        rep_mix = crate::mix::mix_for(5);
        &rep_mix
    } else {
        &cfg.mix
    };
    let mut sw = Swarm::draw(&mut rng, mix, faults);
    // coverage-guided part: half of the runs of later generations continue from a rare state
    let from_corpus = rng.chance(0.5);
    let corpus_pick = rng.next();
    let entry = if ctx.guided && from_corpus && !corpus.is_empty() {
        let total = corpus[corpus.len() - 1].cum_weight;
        let r = corpus_pick % total;
        let i = corpus.partition_point(|e| e.cum_weight <= r);
        Some(&corpus[i.min(corpus.len() - 1)])
    } else {
        None
    };
    if cfg.prop == 9 {
        // systematic part of the setup exploration: runs 0..216,480 give Gold every possible first
        // row, the next 216,481 runs give Silver every possible first row (rabbits first in the
        // second row); later runs are drawn freely
        if idx < FIRST_ROWS {
            sw.setup_policy[0] = SetupPolicy::Scripted(first_row(idx));
        } else if idx < 2 * FIRST_ROWS {
            sw.setup_policy[1] = SetupPolicy::Scripted(first_row(idx - FIRST_ROWS));
        }
    }
    let mut generated = generate(&mut rng, sw.family);
    // Once in forty starts the move number is one of the very last the counter (a usize) can hold,
    // 2^64-12 .. 2^64-7.  Such a run is cut to three operations - at most one turn of Silver ends
    // on the main line, a forced repetition cycle adds at most four more - so that the counter
    // cannot run over during the run itself, and it never seeds the corpus of rare states.
    let edge_coin = rng.below(40) == 0;
    let edge_k = rng.below(6) as u128;
    if edge_coin {
        if let Start::Diagram(t) = &generated {
            if let Some((b, sd, _)) = crate::model::parse_diagram(t) {
                generated = Start::Diagram(crate::model::diagram(&b, sd, (1u128 << 64) - 7 - edge_k));
                sw.cap = sw.cap.min(3);
                ctx.stats.inc("runs.move_number_at_the_edge");
            }
        }
    }
    ctx.stats.inc(if faults { "runs.fault_injecting_config" } else { "runs.fault_free_config" });
    let fam = sw.family;
    let pol = sw.policy;
    let (start, mut trace, snapshot) = match entry {
        Some(e) => {
            ctx.stats.inc("runs.continued_from_a_rare_state");
            // stay close to the rare state
            sw.cap = sw.cap.min(60);
            (e.start.clone(), e.ops.clone(), Some(e.world.clone()))
        }
        None => {
            ctx.stats.inc(&format!("family.{}", sw.family.name()));
            (generated, vec![], None)
        }
    };
    let mut src = RandomSource::new(rng, sw);
    if let Some(w) = &snapshot {
        src.remember_lineage(w);
    }
    ctx.digest = 0;
    let mut candidates = vec![];
    let (res, _out) = guarded_execute_from(ctx, eq, &start, snapshot, &mut src, &mut trace, idx, &mut candidates);
    ctx.stats.add("ops", trace.len() as u64);
    let sample_v = if sample {
        Some(json!({
            "run": idx, "family": fam.name(), "policies": format!("{:?}", pol),
            "start": match &start { Start::Initial => "initial".to_string(), Start::Diagram(t) => t.clone() },
            "ops_total": trace.len(),
            "ops_first_60": trace.iter().take(60).cloned().collect::<Vec<_>>(),
        }))
    } else {
        None
    };
    (res, sample_v, ctx.digest, (start, candidates))
}

/// properties whose game batches use coverage-guided generations
fn guided_for(prop: u32) -> bool {
    matches!(prop, 1 | 2 | 4 | 5 | 6 | 7 | 8 | 10 | 12 | 13 | 14 | 19)
}

struct WorkerState {
    ctx: Ctx,
    eq: EqTable,
    failures: Vec<Failure>,
    harness: Option<String>,
    done: u64,
    foreign: u64,
    samples: Vec<(u64, Value)>,
    digests: Vec<(u64, u64)>,
    truncated: bool,
}

/// Runs are executed in generations.  Within a generation every run is independent and sees the
/// same frozen corpus of rare states; after it, the states with abstract features not seen before
/// are added to the corpus in run-index order.  The outcome therefore does not depend on the
/// number of workers or on their scheduling.
pub fn run_batch(cfg: &BatchConfig) -> BatchResult {
    let t0 = Instant::now();
    let stop_at = AtomicU64::new(u64::MAX);
    let want_digests = cfg.digests.is_some();
    let guided = guided_for(cfg.prop) && cfg.own != 0 && cfg.own != ALL_PROPS;
    let gen_size: u64 = if !guided { cfg.runs.max(1) } else { 20_000 };
    let workers = cfg.workers.max(1);
    let mut states: Vec<WorkerState> = (0..workers)
        .map(|_| {
            let mut ctx = Ctx::new(cfg.own);
            ctx.dfs_budget = if cfg.tier == "thorough" { 4000 } else { 1000 };
            ctx.guided = guided;
            WorkerState { ctx, eq: EqTable::default(), failures: vec![], harness: None, done: 0, foreign: 0, samples: vec![], digests: vec![], truncated: false }
        })
        .collect();
    let mut corpus: Vec<CorpusEntry> = vec![];
    let mut known = FpSet::default();
    let mut gen_start = 0u64;
    let mut generations = 0u64;
    while gen_start < cfg.runs && stop_at.load(Ordering::SeqCst) == u64::MAX {
        let gen_end = (gen_start + gen_size).min(cfg.runs);
        let next = AtomicU64::new(gen_start);
        let found: Mutex<Vec<(u64, Start, Vec<Candidate>)>> = Mutex::new(vec![]);
        let known_arc = std::sync::Arc::new(known.clone());
        let corpus_ref = &corpus;
        std::thread::scope(|s| {
            for st in states.iter_mut() {
                let known_arc = known_arc.clone();
                let next = &next;
                let stop_at = &stop_at;
                let found = &found;
                s.spawn(move || {
                    st.ctx.known_features = known_arc;
                    loop {
                        let idx = next.fetch_add(1, Ordering::SeqCst);
                        if idx >= gen_end || idx > stop_at.load(Ordering::SeqCst) {
                            break;
                        }
                        if t0.elapsed().as_secs_f64() > cfg.wall_cap_s {
                            st.truncated = true;
                            break;
                        }
                        let (res, sample, dg, (start, cands)) = run_one_guided(&mut st.ctx, &mut st.eq, cfg, idx, idx < 3, corpus_ref);
                        st.done += 1;
                        if let Some(sv) = sample {
                            st.samples.push((idx, sv));
                        }
                        if want_digests {
                            st.digests.push((idx, dg));
                        }
                        if !cands.is_empty() {
                            found.lock().unwrap().push((idx, start, cands));
                        }
                        match res {
                            RunResult::Clean => {}
                            RunResult::Foreign => st.foreign += 1,
                            RunResult::Fail(f) => {
                                // keep scanning lower indices only: the reported failure is the lowest
                                stop_at.fetch_min(idx, Ordering::SeqCst);
                                st.failures.push(f);
                            }
                            RunResult::Harness(m) => {
                                stop_at.fetch_min(idx, Ordering::SeqCst);
                                st.harness = Some(format!("run {}: {}", idx, m));
                            }
                        }
                    }
                });
            }
        });
        // merge the new rare states in run-index order (deterministic)
        let mut found = found.into_inner().unwrap();
        found.sort_by_key(|x| x.0);
        for (_, start, cands) in found {
            for (key, ops, world, weight) in cands {
                if corpus.len() < 6000 && known.insert(key) {
                    let cum = corpus.last().map_or(0, |e| e.cum_weight) + weight as u64;
                    corpus.push(CorpusEntry { cum_weight: cum, start: start.clone(), ops, world });
                }
            }
        }
        generations += 1;
        gen_start = gen_end;
        if states.iter().any(|s| s.truncated) {
            break;
        }
    }
    let mut r = BatchResult {
        stats: Stats::default(),
        evals: 0,
        distinct: FpSet::default(),
        states: FpSet::default(),
        capped: false,
        failures: vec![],
        harness: None,
        runs_done: 0,
        foreign: 0,
        samples: vec![],
        digests: BTreeMap::new(),
        wall_s: 0.0,
        truncated: false,
    };
    for st in states {
        r.stats.merge(&st.ctx.stats);
        r.evals += st.ctx.evals;
        for x in st.ctx.distinct {
            r.distinct.insert(x);
        }
        for x in st.ctx.states {
            r.states.insert(x);
        }
        r.capped |= st.ctx.capped;
        r.failures.extend(st.failures);
        if r.harness.is_none() {
            r.harness = st.harness;
        }
        r.runs_done += st.done;
        r.foreign += st.foreign;
        for (_, sv) in st.samples {
            r.samples.push(sv);
        }
        for (i, d) in st.digests {
            r.digests.insert(i, d);
        }
        r.truncated |= st.truncated;
    }
    if guided {
        r.stats.add("guided.generations", generations);
        r.stats.add("guided.rare_states_in_corpus", corpus.len() as u64);
        r.stats.add("guided.distinct_feature_keys", known.len() as u64);
    }
    r.failures.sort_by_key(|f| f.run);
    r.samples.sort_by_key(|v| v["run"].as_u64().unwrap_or(0));
    r.wall_s = t0.elapsed().as_secs_f64();
    r
}

pub fn rule_for(prop: u32) -> &'static str {
    match prop {
        1 => "seeded games from random/trap-dense/blocked/library starts with restarts and forks; a case = a visited state at which the engine's rule-only list was compared as a set with the reference model's; non-trivial = distinct (board, side, step, pending) at which the compared set contained an enemy displacement or a push/pull was pending",
        2 => "every applied action (chosen and fan-out): board after = model transition, captures, conservation; non-trivial = distinct (board, action) edges whose source or target square is a trap or adjacent to one",
        3 => "every applied action: side, step counter, move number, pending and per-turn record against the model; non-trivial = distinct (resulting board, step index at which the turn ended, pass or fourth step, side) turn ends",
        4 => "every visited state: is_terminal against the official order evaluated by the model; non-trivial = distinct turn-start (board, side) at which at least one of the five conditions held",
        5 => "every turn end (chosen) and every offered turn-ending action at every visited state, checked on exact recorded boards; non-trivial = distinct (board, side) that occurred a second time at a start of turn, or that an offered-list check found would be a third occurrence",
        6 => "every visited state: offered list == rule-only list minus exactly the forbidden turn-ending actions (exact recorded history, same order); non-trivial = distinct states at which at least one action was withheld",
        7 => "every visited state: result vs offered list vs can_pass/has_move; non-trivial = distinct mid-turn states with at least one withheld action",
        8 => "every visited play-phase state: hash from scratch, history list entries, equality table; non-trivial = distinct (board, side, step, pending) reached a second time by a different path",
        9 => "every prefix of seeded placement orders: placement square, offered types, hand-over; non-trivial = distinct (mover, pieces placed per type) classes visited",
        10 => "every visited state (setup and play): all board views agree, material bounds, trap rule; non-trivial = distinct (board, side, step, pending) states",
        12 => "every visited play-phase state: reported push/pull status vs the model's, completion set while a push is pending; non-trivial = distinct mid-turn states with a non-empty status",
        13 => "every offered action at every visited state (full fan-out): capture preview vs what applying it really removes; non-trivial = distinct (board, action) pairs that capture",
        14 => "every visited state with k steps made: piece_board_for_step(i) for all i <= k against the recorded boards; non-trivial = distinct (state, i<k, board) triples",
        15 => "print/parse round trip at visited states and restarts that continue from the parsed state; non-trivial = distinct printed diagrams round-tripped",
        16 => "every action played travels as text and is parsed back by the real parser; non-trivial counted in the codec part",
        19 => "every engine call of every run under catch_unwind with overflow/shift checks compiled in, full fan-out; non-trivial = distinct (board, side, step, pending) states on which all listed queries returned normally",
        _ => "seeded games",
    }
}

/// runs a property's game batch, reports, writes the evidence part; returns the exit code
/// true in the binary built from the copy of the engine whose hashing constants are narrowed to a
/// few bits (fault F9, hash collisions; see tools/mask_constants.py and `run`)
pub fn collide_build() -> bool {
    std::env::var("VERIF_BUILD").as_deref() == Ok("collide")
}

pub fn cmd_game(prop: u32, tier: &str, seed: u64, runs_override: Option<u64>, workers: usize, out: &str, replay_dir: &str, digests: Option<String>, known: &KnownFindings) -> i32 {
    let (q, t) = runs_for(prop);
    // the hash-collision build runs a third of the budget (it is an additional part)
    let (q, t) = if collide_build() { ((q / 3).max(4_000), (t / 3).max(4_000)) } else { (q, t) };
    let runs = runs_override.unwrap_or(if tier == "thorough" { t } else { q });
    let cfg = BatchConfig { prop, own: p(prop), tier: tier.to_string(), seed, runs, workers, mix: mix_for(prop), wall_cap_s: if tier == "thorough" { 1500.0 } else { 150.0 }, digests: digests.clone() };
    let r = run_batch(&cfg);
    finish_batch(&cfg, r, out, replay_dir, known)
}

pub fn finish_batch(cfg: &BatchConfig, r: BatchResult, out: &str, replay_dir: &str, known: &KnownFindings) -> i32 {
    let prop = cfg.prop;
    if let Some(path) = &cfg.digests {
        let mut s = String::new();
        for (i, d) in &r.digests {
            s += &format!("{} {:016x}\n", i, d);
        }
        let _ = std::fs::write(path, s);
    }
    if let Some(h) = &r.harness {
        eprintln!("HARNESS-ERROR: {}", h);
        return 2;
    }
    let mut exit = 0;
    let mut violations = 0;
    let mut known_lines = vec![];
    let mut unreproduced: Vec<String> = vec![];
    for f in r.failures.iter().take(4) {
        // minimise, write the replay file, confirm it in a fresh process
        let min = if std::env::var("VERIF_NO_MINIMISE").is_ok() { Failure { run: f.run, prop: f.prop, monitor: f.monitor.clone(), detail: f.detail.clone(), start: f.start.clone(), ops: f.ops.clone(), op_index: f.op_index } } else { minimise(f, cfg.own) };
        let path = format!("{}/{}-{}-{}{}.json", replay_dir, prop_name(prop), cfg.seed, f.run, if collide_build() { "-collide" } else { "" });
        let file = ReplayFile::from_failure(&min, cfg.seed, "game");
        if let Some(k) = known.matches_open(prop, &min.monitor, &min.detail) {
            known_lines.push(format!("KNOWN-FINDING: property={} {}", prop_name(prop), k));
        } else {
            if let Err(e) = file.write(&path) {
                eprintln!("HARNESS-ERROR: cannot write replay file {}: {}", path, e);
                return 2;
            }
            match confirm_in_fresh_process(&path) {
                Ok(true) => {}
                Ok(false) => {
                    // the outcome of this run depended on what its worker thread had executed
                    // before (state the engine keeps between calls): it cannot be replayed from
                    // its own operations; try the next failing run
                    eprintln!("note: run {} failed in the batch ({}: {}) but not when replayed alone in a fresh process", f.run, min.monitor, min.detail.chars().take(160).collect::<String>());
                    unreproduced.push(path.clone());
                    continue;
                }
                Err(e) => {
                    eprintln!("HARNESS-ERROR: cannot run the replay: {}", e);
                    return 2;
                }
            }
            println!("violation: property {} monitor {} at operation {} of {} (run {}, seed {}): {}", prop_name(prop), min.monitor, min.op_index, min.ops.len(), f.run, cfg.seed, min.detail);
            println!("VIOLATION property={} replay={}", prop_name(prop), path);
            violations = 1;
            exit = 1;
        }
        break;
    }
    if exit == 0 && known_lines.is_empty() {
        if let Some(pth) = unreproduced.first() {
            eprintln!("HARNESS-ERROR: replay of {} in a fresh process did not reproduce the violation", pth);
            return 2;
        }
    }
    for l in &known_lines {
        println!("{}", l);
    }
    let steps = r.stats.get("ops.step") + r.stats.get("ops.pass") + r.stats.get("ops.place");
    let mut faults = serde_json::Map::new();
    let mut probes = serde_json::Map::new();
    for (k, v) in &r.stats.counters {
        if k.starts_with("fault.") {
            faults.insert(k.clone(), json!(v));
        } else {
            probes.insert(k.clone(), json!(v));
        }
    }
    let part = json!({
        "part": if collide_build() { "game_hash_collisions" } else { "game" },
        "evaluations": r.evals,
        "distinct_nontrivial": r.distinct.len(),
        "distinct_capped": r.capped,
        "rule": format!("{}{}; runs are executed in deterministic coverage-guided generations where applicable, with fan-out, exhaustive turn expansion and forced repetition cycles as explicit operations (DESIGN.md 12.1)", if collide_build() { "FAULT hash collisions: the engine is built from a copy of the working tree whose hashing constants keep only their low 12 bits, so different positions hash alike all the time; this property does not mention hashes or repetition, so it must hold all the same. " } else { "" }, rule_for(prop)),
        "samples": r.samples,
        "runs": r.runs_done,
        "runs_planned": cfg.runs,
        "truncated_by_wall_clock": r.truncated,
        "simulated_steps": steps,
        "simulated_turns": r.stats.get("turns"),
        "simulated_time": "none: the system has no clock; steps, turns and games are reported instead",
        "runs_aborted_by_other_properties_monitors": r.foreign,
        "distinct_states_reached": r.states.len(),
        "distinct_states_measure": "distinct 64-bit fingerprints of (board, side to move, step index, pending push/pull) over all visited states and fan-out children",
        "runs_per_hour": if r.wall_s > 0.0 { (r.runs_done as f64 / r.wall_s * 3600.0) as u64 } else { 0 },
        "faults_injected_and_effective": Value::Object(faults),
        "probes": Value::Object(probes),
        "workers": cfg.workers,
        "wall_s": r.wall_s,
        "violations": violations,
        "real_vs_stub": {
            "real": "GameState and everything under it (move generation, push/pull state machine, captures, repetition filter, is_terminal/has_move/can_pass, Zobrist update, history list, Display/FromStr, action parser), compiled from /repo/src in the shipped configuration",
            "stub": "players (seeded policies), wire and durable store (in-memory strings), reference model, recorder, monitors"
        }
    });
    if let Err(e) = std::fs::write(out, serde_json::to_string_pretty(&part).unwrap()) {
        eprintln!("HARNESS-ERROR: cannot write {}: {}", out, e);
        return 2;
    }
    println!("{} game part{}: {} runs, {} steps, {} own-monitor evaluations, {} distinct non-trivial, {} foreign aborts, {:.1}s", prop_name(prop), if collide_build() { " (hash collisions injected)" } else { "" }, r.runs_done, steps, r.evals, r.distinct.len(), r.foreign, r.wall_s);
    exit
}

/// States at which the repetition rules withhold something, harvested from seeded sequential games
/// (sparse boards, shuffling players).  Deterministic in `seed`; used as shared roots by the
/// concurrent scenarios, which need states whose expansion consults the history.
pub fn build_state_pool(seed: u64, want: usize) -> Vec<arimaa_engine_step::GameState> {
    let cfg = BatchConfig { prop: 6, own: 0, tier: "pool".into(), seed: seed ^ 0x9001, runs: 0, workers: 1, mix: mix_for(6), wall_cap_s: 60.0, digests: None };
    let mut ctx = Ctx::new(0);
    ctx.capture_limit = want * 6;
    let mut eq = EqTable::default();
    let mut idx = 0u64;
    while ctx.captured.len() < ctx.capture_limit && idx < 4000 {
        let _ = run_one(&mut ctx, &mut eq, &cfg, idx, false);
        idx += 1;
    }
    // mixed-answer states first, then the others; keep the order of discovery within a class
    let mut out: Vec<arimaa_engine_step::GameState> = ctx.captured.iter().filter(|(c, _)| *c == 2).map(|(_, g)| g.clone()).collect();
    out.extend(ctx.captured.iter().filter(|(c, _)| *c != 2).map(|(_, g)| g.clone()));
    out.truncate(want);
    out
}
