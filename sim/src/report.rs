//! Replay files, minimisation, fresh-process confirmation, known findings.
use crate::ctx::*;
use crate::driver::*;
use crate::game::*;
use crate::model::*;
use crate::scenario::Start;
use crate::world::EqTable;
use serde_json::{json, Value};

pub struct ReplayFile {
    pub v: Value,
}

pub fn repo_hash() -> String {
    std::env::var("VERIF_REPO_HASH").unwrap_or_else(|_| "unknown".into())
}

impl ReplayFile {
    pub fn from_failure(f: &Failure, seed: u64, mode: &str) -> ReplayFile {
        ReplayFile {
            v: json!({
                "mode": mode,
                "property": prop_name(f.prop),
                "monitor": f.monitor,
                "detail": f.detail,
                "start": match &f.start { Start::Initial => json!({"kind": "initial"}), Start::Diagram(t) => json!({"kind": "diagram", "text": t}) },
                "ops": f.ops,
                "op_index": f.op_index,
                "seed": seed,
                "run_index": f.run,
                "repo_src_hash": repo_hash(),
                "build": if crate::game::collide_build() { "collide" } else { "plain" },
                "how_to_replay": "cd /verif && ./run replay <this file>",
            }),
        }
    }
    pub fn write(&self, path: &str) -> std::io::Result<()> {
        if let Some(dir) = std::path::Path::new(path).parent() {
            std::fs::create_dir_all(dir)?;
        }
        std::fs::write(path, serde_json::to_string_pretty(&self.v).unwrap())
    }
    pub fn read(path: &str) -> Result<ReplayFile, String> {
        let s = std::fs::read_to_string(path).map_err(|e| e.to_string())?;
        Ok(ReplayFile { v: serde_json::from_str(&s).map_err(|e| e.to_string())? })
    }
    pub fn start(&self) -> Start {
        match self.v["start"]["kind"].as_str() {
            Some("diagram") => Start::Diagram(self.v["start"]["text"].as_str().unwrap_or("").to_string()),
            _ => Start::Initial,
        }
    }
    pub fn ops(&self) -> Vec<String> {
        self.v["ops"].as_array().map(|a| a.iter().filter_map(|x| x.as_str().map(|s| s.to_string())).collect()).unwrap_or_default()
    }
}

/// re-execute (start, ops) literally; Some(failure) if a monitor of `own` fires
pub fn replay_ops(own: PropMask, start: &Start, ops: &[String]) -> Result<Option<Failure>, String> {
    let mut ctx = Ctx::new(own);
    let mut eq = EqTable::default();
    let mut src = ReplaySource { ops: ops.to_vec(), pos: 0 };
    let mut trace = vec![];
    let (res, _) = guarded_execute(&mut ctx, &mut eq, start, &mut src, &mut trace, 0);
    match res {
        RunResult::Clean | RunResult::Foreign => Ok(None),
        RunResult::Fail(mut f) => {
            // the trace holds the operations actually performed
            f.ops = trace;
            Ok(Some(f))
        }
        RunResult::Harness(m) => Err(m),
    }
}

fn same_class(a: &Failure, prop: u32, monitor: &str) -> bool {
    a.prop == prop && a.monitor == monitor
}

/// delta-debugging over the operation list, then over the start position; bounded
pub fn minimise(f: &Failure, own: PropMask) -> Failure {
    let mut budget = 2000usize;
    let mut best = Failure { run: f.run, prop: f.prop, monitor: f.monitor.clone(), detail: f.detail.clone(), start: f.start.clone(), ops: f.ops.clone(), op_index: f.op_index };
    // operations after the failing one are irrelevant
    if best.op_index + 1 < best.ops.len() {
        best.ops.truncate(best.op_index + 1);
    }
    let try_candidate = |start: &Start, ops: &[String], budget: &mut usize| -> Option<Failure> {
        if *budget == 0 {
            return None;
        }
        *budget -= 1;
        match replay_ops(own, start, ops) {
            Ok(Some(g)) if same_class(&g, f.prop, &f.monitor) => Some(g),
            _ => None,
        }
    };
    // confirm the truncated trace still fails; otherwise keep the original
    match try_candidate(&best.start, &best.ops, &mut budget) {
        Some(g) => {
            best.ops = g.ops;
            best.op_index = g.op_index;
            best.detail = g.detail;
        }
        None => {
            best.ops = f.ops.clone();
            return best;
        }
    }
    // cut the prefix: restart from the printed position at the latest start of turn that still fails
    {
        let mut ctx = Ctx::new(own);
        ctx.record_turn_starts = true;
        let mut eq = EqTable::default();
        let mut src = ReplaySource { ops: best.ops.clone(), pos: 0 };
        let mut trace = vec![];
        let _ = guarded_execute(&mut ctx, &mut eq, &best.start, &mut src, &mut trace, 0);
        let mut cuts: Vec<(usize, String)> = ctx.turn_starts.into_iter().filter(|(i, _)| *i > 0 && *i < best.ops.len()).collect();
        cuts.reverse();
        // latest first; at most 40 candidates, thinning out towards the beginning
        let mut tried = 0;
        let mut k = 0usize;
        while k < cuts.len() && tried < 40 {
            let (i, diag) = &cuts[k];
            let cand_start = Start::Diagram(diag.clone());
            let cand_ops: Vec<String> = best.ops[*i..].to_vec();
            tried += 1;
            if let Some(g) = try_candidate(&cand_start, &cand_ops, &mut budget) {
                best.start = cand_start;
                best.ops = g.ops;
                best.op_index = g.op_index;
                best.detail = g.detail;
                break;
            }
            k += 1 + tried / 8;
        }
    }
    // ddmin on ops
    let mut chunk = (best.ops.len() / 2).max(1);
    loop {
        let mut i = 0;
        let mut progress = false;
        while i < best.ops.len() && budget > 0 {
            let end = (i + chunk).min(best.ops.len());
            let mut cand: Vec<String> = best.ops[..i].to_vec();
            cand.extend_from_slice(&best.ops[end..]);
            if let Some(g) = try_candidate(&best.start, &cand, &mut budget) {
                best.ops = g.ops.clone();
                if g.op_index + 1 < best.ops.len() {
                    best.ops.truncate(g.op_index + 1);
                }
                best.op_index = g.op_index;
                best.detail = g.detail;
                progress = true;
            } else {
                i += chunk;
            }
        }
        if budget == 0 || best.ops.is_empty() {
            break;
        }
        if chunk == 1 {
            if !progress {
                break;
            }
        } else {
            chunk /= 2;
        }
    }
    // start position: drop pieces one at a time
    if let Start::Diagram(text) = best.start.clone() {
        if let Some((mut board, side, mv)) = parse_diagram(&text) {
            let mut changed = true;
            while changed && budget > 0 {
                changed = false;
                for i in 0..64 {
                    if board[i].is_none() || budget == 0 {
                        continue;
                    }
                    let saved = board[i];
                    board[i] = None;
                    if !unsupported_on_traps(&board).is_empty() {
                        // keep the start position one the rules can produce
                        board[i] = saved;
                        continue;
                    }
                    let cand_start = Start::Diagram(diagram(&board, side, mv));
                    if let Some(g) = try_candidate(&cand_start, &best.ops, &mut budget) {
                        best.start = cand_start;
                        best.ops = g.ops;
                        best.op_index = g.op_index;
                        best.detail = g.detail;
                        changed = true;
                    } else {
                        board[i] = saved;
                    }
                }
            }
            // small move number if it does not matter
            if mv != 2 && budget > 0 {
                let cand_start = Start::Diagram(diagram(&board, side, 2));
                if let Some(g) = try_candidate(&cand_start, &best.ops, &mut budget) {
                    best.start = cand_start;
                    best.detail = g.detail;
                }
            }
        }
    }
    best
}

/// `arena replay <file>`: exit 1 with a VIOLATION line if the file's violation reproduces
pub fn cmd_replay(path: &str) -> i32 {
    let file = match ReplayFile::read(path) {
        Ok(f) => f,
        Err(e) => {
            eprintln!("HARNESS-ERROR: cannot read {}: {}", path, e);
            return 2;
        }
    };
    let mode = file.v["mode"].as_str().unwrap_or("game").to_string();
    let prop = parse_prop(file.v["property"].as_str().unwrap_or("")).unwrap_or(0);
    let monitor = file.v["monitor"].as_str().unwrap_or("").to_string();
    let res: Result<Option<(String, String)>, String> = match mode.as_str() {
        "game" => replay_ops(p(prop), &file.start(), &file.ops()).map(|o| o.map(|f| (f.monitor, f.detail))),
        "sym" => crate::sym::replay(&file),
        "text" => crate::textfaults::replay(&file),
        "codec" => crate::textfaults::replay_codec(),
        "stack" => crate::stack::replay(&file),
        "longgame" => crate::stack::replay_longgame(&file),
        "longrep" => crate::stack::replay_longrep(&file),
        other => Err(format!("unknown replay mode {}", other)),
    };
    match res {
        Err(e) => {
            eprintln!("HARNESS-ERROR: {}", e);
            2
        }
        Ok(Some((m, d))) if m == monitor => {
            println!("reproduced: property {} monitor {}: {}", prop_name(prop), m, d);
            println!("VIOLATION property={} replay={}", prop_name(prop), path);
            1
        }
        Ok(Some((m, d))) => {
            println!("a different monitor fired on replay: {} ({}); the file names {}", m, d, monitor);
            println!("VIOLATION property={} replay={}", prop_name(prop), path);
            1
        }
        Ok(None) => {
            println!("not reproduced: the operations of {} run clean on this tree", path);
            0
        }
    }
}

pub fn confirm_in_fresh_process(path: &str) -> Result<bool, String> {
    let exe = std::env::current_exe().map_err(|e| e.to_string())?;
    let out = std::process::Command::new(exe).arg("replay").arg(path).output().map_err(|e| e.to_string())?;
    Ok(out.status.code() == Some(1))
}

/// /verif/known_findings.json: {"findings": [{"property": "C15", "status": "fixed"|"open", "commit": .., "what": ..,
/// "monitor": .., "detail_contains": ..}]}.  Only `open` entries suppress an alarm, and only for a
/// violation with the same monitor whose detail contains the recorded text.
pub struct KnownFindings {
    pub entries: Vec<Value>,
}
impl KnownFindings {
    pub fn load(path: &str) -> KnownFindings {
        let entries = std::fs::read_to_string(path).ok().and_then(|s| serde_json::from_str::<Value>(&s).ok()).and_then(|v| v["findings"].as_array().cloned()).unwrap_or_default();
        KnownFindings { entries }
    }
    pub fn matches_open(&self, prop: u32, monitor: &str, detail: &str) -> Option<String> {
        for e in &self.entries {
            if e["status"].as_str() == Some("open") && e["property"].as_str() == Some(&prop_name(prop)) && e["monitor"].as_str() == Some(monitor) {
                if let Some(needle) = e["detail_contains"].as_str() {
                    if detail.contains(needle) {
                        return Some(e["what"].as_str().unwrap_or("").to_string());
                    }
                }
            }
        }
        None
    }
}

/// `arena merge --id C05 --tier quick --seed 1 --level exploration --out evidence.json part1.json part2.json ...`
pub fn cmd_merge(args: &[String]) -> i32 {
    let mut id = String::new();
    let mut tier = "quick".to_string();
    let mut seed = 1i64;
    let mut level = "exploration".to_string();
    let mut out = String::new();
    let mut wall = 0.0f64;
    let mut parts = vec![];
    let mut assumptions: Vec<String> = vec![];
    let mut i = 0;
    while i < args.len() {
        match args[i].as_str() {
            "--id" => { id = args[i + 1].clone(); i += 2; }
            "--tier" => { tier = args[i + 1].clone(); i += 2; }
            "--seed" => { seed = args[i + 1].parse().unwrap_or(1); i += 2; }
            "--level" => { level = args[i + 1].clone(); i += 2; }
            "--out" => { out = args[i + 1].clone(); i += 2; }
            "--wall" => { wall = args[i + 1].parse().unwrap_or(0.0); i += 2; }
            "--assume" => { assumptions.push(args[i + 1].clone()); i += 2; }
            p => { parts.push(p.to_string()); i += 1; }
        }
    }
    let mut evaluations = 0u64;
    let mut distinct = 0u64;
    let mut violations = 0i64;
    let mut rules = vec![];
    let mut samples = vec![];
    let mut part_values = vec![];
    let mut exhaustive_parts = vec![];
    for pth in &parts {
        let v: Value = match std::fs::read_to_string(pth).ok().and_then(|s| serde_json::from_str(&s).ok()) {
            Some(v) => v,
            None => {
                eprintln!("HARNESS-ERROR: evidence part {} missing or unreadable", pth);
                return 2;
            }
        };
        evaluations += v["evaluations"].as_u64().unwrap_or(0);
        distinct += v["distinct_nontrivial"].as_u64().unwrap_or(0);
        violations += v["violations"].as_i64().unwrap_or(0);
        if let Some(r) = v["rule"].as_str() {
            rules.push(format!("[{}] {}", v["part"].as_str().unwrap_or("?"), r));
        }
        if let Some(s) = v["samples"].as_array() {
            for x in s.iter().take(4) {
                samples.push(json!({"part": v["part"], "case": x}));
            }
        }
        if v["exhaustive"].as_bool() == Some(true) {
            exhaustive_parts.push(v["part"].clone());
        }
        let mut pv = v.clone();
        if let Some(o) = pv.as_object_mut() {
            o.remove("samples");
        }
        part_values.push(pv);
    }
    let ev = json!({
        "property_id": id,
        "tier": tier,
        "seed": seed,
        "level": level,
        "coverage": {
            "evaluations": evaluations,
            "distinct_nontrivial": distinct,
            "rule": rules.join(" || "),
            "samples": samples,
            "parts": part_values,
            "parts_enumerated_exhaustively": exhaustive_parts,
        },
        "assumptions": assumptions,
        "wall_s": wall,
        "violations": violations,
    });
    if let Some(dir) = std::path::Path::new(&out).parent() {
        let _ = std::fs::create_dir_all(dir);
    }
    match std::fs::write(&out, serde_json::to_string_pretty(&ev).unwrap()) {
        Ok(_) => 0,
        Err(e) => {
            eprintln!("HARNESS-ERROR: cannot write {}: {}", out, e);
            2
        }
    }
}
