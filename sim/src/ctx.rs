//! Per-worker bookkeeping: which property's check is running, findings of the current step,
//! counters and probes, distinct-case sets, and the engine-call breadcrumb used to attribute
//! panics (C19) to the engine call that was in progress.
use std::cell::{Cell, RefCell};
use std::collections::{BTreeMap, HashSet};
use std::hash::{BuildHasherDefault, Hasher};

pub type PropMask = u32;
pub const ALL_PROPS: PropMask = 0x1f_ffff;
pub const fn p(n: u32) -> PropMask {
    1 << n
}
pub fn prop_name(n: u32) -> String {
    format!("C{:02}", n)
}
pub fn parse_prop(s: &str) -> Option<u32> {
    let s = s.trim();
    if !s.starts_with('C') {
        return None;
    }
    let n: u32 = s[1..].parse().ok()?;
    if (1..=20).contains(&n) {
        Some(n)
    } else {
        None
    }
}

#[derive(Clone, Debug)]
pub struct Finding {
    pub monitor: &'static str,
    pub owners: PropMask,
    pub detail: String,
}

#[derive(Debug)]
pub enum Stop {
    /// a monitor owned by the running property fired
    Violation(Finding),
    /// a monitor of another property fired and the model could not be resynchronised
    ForeignAbort(String),
    /// the engine panicked inside the named call
    Panic { call: String, message: String },
    /// replay only: an operation of the file cannot be performed (action not offered ...)
    Invalid(String),
}

/// identity hasher for already-mixed 64-bit fingerprints (no RandomState anywhere)
#[derive(Default)]
pub struct IdHasher(u64);
impl Hasher for IdHasher {
    fn finish(&self) -> u64 {
        self.0
    }
    fn write(&mut self, bytes: &[u8]) {
        for b in bytes {
            self.0 = (self.0 << 8) | *b as u64;
        }
    }
    fn write_u64(&mut self, v: u64) {
        self.0 = v;
    }
}
pub type FpSet = HashSet<u64, BuildHasherDefault<IdHasher>>;
pub const FPSET_CAP: usize = 4_000_000;

#[derive(Default)]
pub struct Stats {
    pub counters: BTreeMap<String, u64>,
}
impl Stats {
    pub fn add(&mut self, name: &str, n: u64) {
        if let Some(c) = self.counters.get_mut(name) {
            *c += n;
        } else {
            self.counters.insert(name.to_string(), n);
        }
    }
    pub fn inc(&mut self, name: &str) {
        self.add(name, 1)
    }
    pub fn get(&self, name: &str) -> u64 {
        self.counters.get(name).copied().unwrap_or(0)
    }
    /// counters whose name starts with "max." keep a maximum instead of a sum
    pub fn max(&mut self, name: &str, v: u64) {
        let c = self.counters.entry(name.to_string()).or_insert(0);
        if v > *c {
            *c = v;
        }
    }
    pub fn merge(&mut self, other: &Stats) {
        for (k, v) in &other.counters {
            if k.starts_with("max.") {
                self.max(k, *v);
            } else {
                self.add(k, *v);
            }
        }
    }
}

pub struct Ctx {
    /// properties whose monitors decide this run (one bit for a property check, all bits for self-tests)
    pub own: PropMask,
    pub findings: Vec<Finding>,
    pub stats: Stats,
    /// evaluations of monitors owned by `own`
    pub evals: u64,
    /// fingerprints of distinct non-trivial cases of the own property (rule in evidence)
    pub distinct: FpSet,
    /// fingerprints of distinct (board, side, step, pending) states visited
    pub states: FpSet,
    pub capped: bool,
    /// running digest of everything observed in the current run (determinism self-test)
    pub digest: u64,
    /// replay/minimisation only: (operation index, printed position) at every start of turn
    pub record_turn_starts: bool,
    pub turn_starts: Vec<(usize, String)>,
    /// pool building (concurrent scenarios): states at which the repetition rules withhold something
    pub dfs_budget: usize,
    /// coverage-guided exploration: feature key of the last fully checked state, the keys known
    /// before this generation, and the keys this run has produced
    pub guided: bool,
    pub last_feature: Option<u64>,
    /// how interesting the state of `last_feature` is as a starting point (sampling weight)
    pub last_feature_weight: u32,
    pub known_features: std::sync::Arc<FpSet>,
    pub run_features: FpSet,
    pub capture_limit: usize,
    pub captured: Vec<(u8, arimaa_engine_step::GameState)>,
}

impl Ctx {
    pub fn new(own: PropMask) -> Ctx {
        Ctx { own, findings: vec![], stats: Stats::default(), evals: 0, distinct: FpSet::default(), states: FpSet::default(), capped: false, digest: 0, record_turn_starts: false, turn_starts: vec![], dfs_budget: 1000, guided: false, last_feature: None, last_feature_weight: 1, known_features: std::sync::Arc::new(FpSet::default()), run_features: FpSet::default(), capture_limit: 0, captured: vec![] }
    }
    /// record that monitor `monitor` (owned by `owners`) was evaluated; if `bad`, record a finding
    #[inline]
    pub fn check(&mut self, monitor: &'static str, owners: PropMask, ok: bool, detail: impl FnOnce() -> String) {
        if owners & self.own != 0 {
            self.evals += 1;
        }
        if !ok {
            self.findings.push(Finding { monitor, owners, detail: detail() });
        }
    }
    pub fn nontrivial(&mut self, owners: PropMask, fp: u64) {
        if owners & self.own != 0 {
            if self.distinct.len() < FPSET_CAP {
                self.distinct.insert(fp);
            } else {
                self.capped = true;
            }
        }
    }
    pub fn visit_state(&mut self, fp: u64) {
        if self.states.len() < FPSET_CAP {
            self.states.insert(fp);
        } else {
            self.capped = true;
        }
    }
    pub fn observe(&mut self, v: u64) {
        self.digest = (self.digest ^ v).wrapping_mul(0x100000001b3).rotate_left(17);
    }
    /// first finding owned by the running property, if any
    pub fn owned_finding(&mut self) -> Option<Finding> {
        let own = self.own;
        self.findings.iter().find(|f| f.owners & own != 0).cloned()
    }
}

// ---- engine-call breadcrumb and silent panic capture
thread_local! {
    static CRUMB: Cell<Option<&'static str>> = const { Cell::new(None) };
    static LAST_PANIC: RefCell<Option<String>> = const { RefCell::new(None) };
    static QUIET: Cell<bool> = const { Cell::new(false) };
}
pub fn crumb_set(name: &'static str) -> Option<&'static str> {
    CRUMB.with(|c| c.replace(Some(name)))
}
pub fn crumb_restore(prev: Option<&'static str>) {
    CRUMB.with(|c| c.set(prev))
}
pub fn crumb_take() -> Option<&'static str> {
    CRUMB.with(|c| c.take())
}
pub fn last_panic_take() -> Option<String> {
    LAST_PANIC.with(|p| p.borrow_mut().take())
}
pub fn set_quiet(q: bool) -> bool {
    QUIET.with(|c| c.replace(q))
}
pub fn install_panic_hook() {
    let default = std::panic::take_hook();
    std::panic::set_hook(Box::new(move |info| {
        let msg = if let Some(s) = info.payload().downcast_ref::<&str>() {
            s.to_string()
        } else if let Some(s) = info.payload().downcast_ref::<String>() {
            s.clone()
        } else {
            "<non-string panic payload>".to_string()
        };
        let loc = info.location().map(|l| format!("{}:{}", l.file(), l.line())).unwrap_or_default();
        // keep the first message: a scheduler that re-raises a task's panic must not overwrite it
        LAST_PANIC.with(|p| {
            let mut g = p.borrow_mut();
            if g.is_none() {
                *g = Some(format!("{} at {}", msg, loc));
            }
        });
        if !QUIET.with(|c| c.get()) {
            default(info);
        }
    }));
}

/// run an engine call under a breadcrumb
#[macro_export]
macro_rules! eng {
    ($name:literal, $e:expr) => {{
        let __prev = $crate::ctx::crumb_set($name);
        let __r = $e;
        $crate::ctx::crumb_restore(__prev);
        __r
    }};
}
