//! The simulated game loop: a source of operations (seeded players and disturbances, or a
//! replay file) drives the referee; the monitors of `world` run before and after every
//! operation.  Every PRNG decision that matters is written into the trace as an explicit
//! operation, so that a replay is a pure function of (start, operations, code).
use crate::bridge::*;
use crate::ctx::*;
use crate::eng;
use crate::model::*;
use crate::rng::Rng;
use crate::scenario::*;
use crate::world::*;
use arimaa_engine_step::Action;

#[derive(Clone, Copy, PartialEq, Eq, Debug)]
pub enum Policy {
    Uniform,
    PassHappy,
    Shuffler,
    Pusher,
    TrapSeeker,
    RabbitRunner,
    PassEarly,
    Rotator,
    Shuttler,
    Repeater,
}
pub const POLICIES: [Policy; 10] = [Policy::Uniform, Policy::PassHappy, Policy::Shuffler, Policy::Pusher, Policy::TrapSeeker, Policy::RabbitRunner, Policy::PassEarly, Policy::Rotator, Policy::Shuttler, Policy::Repeater];

#[derive(Clone, Copy, PartialEq, Eq, Debug)]
pub enum SetupPolicy {
    Uniform,
    RabbitsFirst,
    RabbitsLast,
    ExhaustOne(Kind),
    /// the first row is the run-index-th of the 216,481 possible first rows; the second row
    /// places rabbits first (index 0..8 of the script), the rest uniformly
    Scripted([Kind; 8]),
    /// Silver repeats Gold's placements type for type (a mirrored army, the most common setup
    /// habit); for Gold, who places first, the same as `Uniform`
    Copy,
}

/// workload mix of a property's check (weights and menus the per-run swarm draws from)
#[derive(Clone, Debug)]
pub struct Mix {
    pub families: [u32; 16],
    pub policies: [u32; 10],
    pub caps: &'static [usize],
    pub fan: &'static [f64],
    pub fan2: &'static [f64],
    pub rt: &'static [f64],
    pub restart: &'static [f64],
    pub fork: &'static [f64],
    pub dfs: &'static [f64],
}

/// one run's configuration, drawn from the mix
#[derive(Clone, Debug)]
pub struct Swarm {
    pub family: Family,
    pub cap: usize,
    pub fan: f64,
    pub fan2: f64,
    pub rt: f64,
    pub restart: f64,
    pub fork: f64,
    pub snap: f64,
    pub dfs: f64,
    pub policy: [Policy; 2],
    pub setup_policy: [SetupPolicy; 2],
}

impl Swarm {
    pub fn draw(rng: &mut Rng, mix: &Mix, faults: bool) -> Swarm {
        let family = FAMILIES[rng.weighted(&mix.families)];
        let cap = *rng.pick(mix.caps);
        let fan = *rng.pick(mix.fan);
        let fan2 = *rng.pick(mix.fan2);
        let rt = *rng.pick(mix.rt);
        let restart = *rng.pick(mix.restart);
        let fork = *rng.pick(mix.fork);
        let dfs = *rng.pick(mix.dfs);
        let p0 = POLICIES[rng.weighted(&mix.policies)];
        let p1 = if rng.chance(0.5) { p0 } else { POLICIES[rng.weighted(&mix.policies)] };
        let mut sp = [SetupPolicy::Uniform; 2];
        for s in sp.iter_mut() {
            *s = match rng.below(6) {
                5 => SetupPolicy::Copy,
                0 => SetupPolicy::RabbitsFirst,
                1 => SetupPolicy::RabbitsLast,
                2 => SetupPolicy::ExhaustOne(KINDS[rng.below(6)]),
                _ => SetupPolicy::Uniform,
            };
        }
        let (restart, fork) = if faults { (restart, fork) } else { (0.0, 0.0) };
        // the cage needs the two sides to shuffle and pass as early as possible
        // small clustered positions: expand whole turns exhaustively, starting at the first state
        let dfs = if family == Family::TrapCluster || family == Family::Motif || family == Family::Confront || family == Family::Elimination { 0.02 } else { dfs };
        let policy = if family == Family::Cage && rng.chance(0.8) { [Policy::PassEarly, Policy::PassEarly] } else { [p0, p1] };
        Swarm { family, cap, fan, fan2, rt, restart, fork, snap: if fork > 0.0 { (fork * 2.0).min(0.5) } else { 0.0 }, dfs, policy, setup_policy: sp }
    }
}

pub trait Source {
    /// operations to perform at this state: zero or more flags, then at most one
    /// state-changing operation; empty = the run ends here
    fn next_ops(&mut self, w: &World, info: &StateInfo, pool: usize) -> Vec<String>;
}

pub struct RandomSource {
    pub rng: Rng,
    pub sw: Swarm,
    pub steps: usize,
    recent: Vec<[u8; 64]>,
    /// Shuttler: steps per turn before passing (1..=3), fixed per run
    shuttle_k: usize,
    /// Repeater: per side, the own steps of the previous own turn, of the current one, and the
    /// script (the previous turn undone) still to be played this turn
    rep_last: [Vec<(Sq, Dir)>; 2],
    rep_cur: [Vec<(Sq, Dir)>; 2],
    rep_script: [Vec<Act>; 2],
    rep_len: usize,
}
impl RandomSource {
    pub fn new(rng: Rng, sw: Swarm) -> Self {
        let mut rng = rng;
        let shuttle_k = 1 + rng.below(3);
        RandomSource { rng, sw, steps: 0, recent: vec![], shuttle_k, rep_last: [vec![], vec![]], rep_cur: [vec![], vec![]], rep_script: [vec![], vec![]], rep_len: 1 }
    }
    fn choose(&mut self, w: &World, info: &StateInfo) -> usize {
        let n = info.offered.len();
        let rng = &mut self.rng;
        let uniform = rng.below(n);
        let side = w.m.side;
        if w.m.setup {
            let pol = self.sw.setup_policy[side as usize];
            let r = rng.next();
            let find = |k: Kind| info.offered.iter().position(|a| a.to_string() == k.letter().to_string());
            return match pol {
                SetupPolicy::Uniform => uniform,
                SetupPolicy::RabbitsFirst => find(Kind::R).unwrap_or(uniform),
                SetupPolicy::RabbitsLast => {
                    let non: Vec<usize> = (0..n).filter(|i| info.offered[*i].to_string() != "r").collect();
                    if non.is_empty() {
                        uniform
                    } else {
                        non[(r % non.len() as u64) as usize]
                    }
                }
                SetupPolicy::ExhaustOne(k) => find(k).unwrap_or(uniform),
                SetupPolicy::Copy => {
                    let placed: usize = KINDS.iter().map(|k| count(&w.m.board, side, *k)).sum();
                    let gold_sq = if placed < 8 { Sq::new(placed as u8, 2) } else { Sq::new((placed - 8) as u8, 1) };
                    match (side, w.m.board[gold_sq.0 as usize]) {
                        (Side::Silver, Some((Side::Gold, k))) if placed < 16 => find(k).unwrap_or(uniform),
                        _ => uniform,
                    }
                }
                SetupPolicy::Scripted(row) => {
                    let placed: usize = KINDS.iter().map(|k| count(&w.m.board, side, *k)).sum();
                    if placed < 8 {
                        find(row[placed]).unwrap_or(uniform)
                    } else {
                        find(Kind::R).unwrap_or(uniform)
                    }
                }
            };
        }
        let pol = self.sw.policy[side as usize];
        let r1 = rng.next();
        let r2 = rng.next();
        let coin = |r: u64, p: f64| ((r >> 11) as f64 / (1u64 << 53) as f64) < p;
        let pass_idx = info.offered.iter().position(|a| matches!(a, Action::Pass));
        let acts: Vec<Option<Act>> = info.offered.iter().map(|a| Act::parse(&a.to_string())).collect();
        let pick_from = |c: &Vec<usize>, r: u64| c[(r % c.len() as u64) as usize];
        match pol {
            Policy::Uniform => uniform,
            Policy::PassHappy => match pass_idx {
                Some(i) if coin(r1, 0.45) => i,
                _ => uniform,
            },
            Policy::Shuffler | Policy::PassEarly | Policy::Shuttler => {
                if pol == Policy::PassEarly {
                    if let Some(i) = pass_idx {
                        return i;
                    }
                }
                if pol == Policy::Shuttler {
                    // multi-step turns that shuttle back and forth: k steps, then pass
                    if w.m.steps_made() >= self.shuttle_k {
                        if let Some(i) = pass_idx {
                            return i;
                        }
                    }
                }
                if pol == Policy::Shuffler && !coin(r1, 0.7) {
                    return uniform;
                }
                // prefer steps that lead back to a recently seen board
                let mut back: Vec<usize> = vec![];
                for (i, a) in info.offered.iter().enumerate() {
                    if let Action::Move(..) = a {
                        let child = eng!("take_action", w.gs.take_action(a));
                        if let Ok(b) = decode_board(child.piece_board()) {
                            if self.recent.contains(&board_key(&b)) {
                                back.push(i);
                            }
                        }
                    }
                }
                if back.is_empty() {
                    if pol == Policy::PassEarly {
                        // a deterministic, minimal move: the first offered step of an own piece
                        return acts.iter().position(|a| matches!(a, Some(Act::Step(q, _)) if matches!(w.m.board[q.0 as usize], Some((s, _)) if s == side))).unwrap_or(0);
                    }
                    uniform
                } else {
                    pick_from(&back, r2)
                }
            }
            Policy::Pusher => {
                let c: Vec<usize> = (0..n).filter(|i| matches!(acts[*i], Some(Act::Step(q, _)) if matches!(w.m.board[q.0 as usize], Some((s, _)) if s != side))).collect();
                if !c.is_empty() && coin(r1, 0.7) {
                    pick_from(&c, r2)
                } else {
                    uniform
                }
            }
            Policy::TrapSeeker => {
                let c: Vec<usize> = (0..n).filter(|i| eng!("trapped_animal_for_action", w.gs.trapped_animal_for_action(&info.offered[*i])).is_some()).collect();
                if !c.is_empty() && coin(r1, 0.8) {
                    return pick_from(&c, r2);
                }
                let c: Vec<usize> = (0..n)
                    .filter(|i| matches!(acts[*i], Some(Act::Step(q, d)) if q.step(d).map_or(false, |t| t.is_trap() || t.neighbours().any(|x| x.is_trap()))))
                    .collect();
                if !c.is_empty() && coin(r1, 0.9) {
                    pick_from(&c, r2)
                } else {
                    uniform
                }
            }
            Policy::Repeater => {
                // every second own turn undoes the previous one step by step, so that both sides
                // shuttle through multi-step turns and positions recur with every turn shape
                let si = side as usize;
                let opposite = |d: Dir| match d {
                    Dir::N => Dir::S,
                    Dir::S => Dir::N,
                    Dir::E => Dir::W,
                    Dir::W => Dir::E,
                };
                if w.m.steps_made() == 0 {
                    self.rep_last[si] = std::mem::take(&mut self.rep_cur[si]);
                    self.rep_script[si] = self.rep_last[si].iter().rev().filter_map(|(q, d)| q.step(*d).map(|t| Act::Step(t, opposite(*d)))).collect();
                    self.rep_len = 1 + (r1 % 3) as usize;
                }
                let find = |a: Act| acts.iter().position(|x| *x == Some(a));
                let pick = if let Some(next) = self.rep_script[si].first().copied() {
                    match find(next) {
                        Some(i) => {
                            self.rep_script[si].remove(0);
                            Some(i)
                        }
                        None => {
                            self.rep_script[si].clear();
                            None
                        }
                    }
                } else {
                    None
                };
                let undoing = !self.rep_last[si].is_empty();
                let i = match pick {
                    Some(i) => i,
                    None => {
                        // the script is finished (or there was none): pass when the turn is long enough
                        let want_len = if undoing { self.rep_last[si].len() } else { self.rep_len };
                        if w.m.steps_made() >= want_len.max(1) {
                            if let Some(p) = pass_idx {
                                return p;
                            }
                        }
                        // a random own-piece step (no displacements: they cannot be undone)
                        let own: Vec<usize> = (0..n).filter(|i| matches!(acts[*i], Some(Act::Step(q, _)) if matches!(w.m.board[q.0 as usize], Some((s, _)) if s == side))).collect();
                        if own.is_empty() { uniform } else { pick_from(&own, r2) }
                    }
                };
                if let Some(Act::Step(q, d)) = acts[i] {
                    if matches!(w.m.board[q.0 as usize], Some((s, _)) if s == side) {
                        self.rep_cur[si].push((q, d));
                    } else {
                        // an enemy displacement cannot be undone: forget the turn
                        self.rep_cur[si].clear();
                        self.rep_script[si].clear();
                    }
                }
                i
            }
            Policy::Rotator => {
                // turns whose steps permute the pieces: move into a square that was occupied at the
                // start of this turn and is empty now; on the first step move a piece that has company
                let start = w.rec.turn_start_board();
                let c: Vec<usize> = match (w.m.steps_made(), start) {
                    (0, _) | (_, None) => (0..n)
                        .filter(|i| matches!(acts[*i], Some(Act::Step(q, d)) if q.neighbours().filter(|x| w.m.board[x.0 as usize].is_some()).count() >= 2
                            && q.step(d).map_or(false, |t| t.neighbours().filter(|x| w.m.board[x.0 as usize].is_some()).count() >= 2)))
                        .collect(),
                    (_, Some(sb)) => (0..n)
                        .filter(|i| matches!(acts[*i], Some(Act::Step(q, d)) if q.step(d).map_or(false, |t| sb[t.0 as usize].is_some() && w.m.board[t.0 as usize].is_none())))
                        .collect(),
                };
                if !c.is_empty() && coin(r1, 0.9) {
                    pick_from(&c, r2)
                } else if w.m.steps_made() >= 1 && !c.is_empty() {
                    uniform
                } else {
                    // keep the cluster together: prefer steps whose target has neighbours
                    let c2: Vec<usize> = (0..n)
                        .filter(|i| matches!(acts[*i], Some(Act::Step(q, d)) if q.step(d).map_or(false, |t| t.neighbours().filter(|x| *x != q && w.m.board[x.0 as usize].is_some()).count() >= 1)))
                        .collect();
                    if !c2.is_empty() && coin(r1, 0.8) {
                        pick_from(&c2, r2)
                    } else {
                        uniform
                    }
                }
            }
            Policy::RabbitRunner => {
                let fwd = if side == Side::Gold { Dir::N } else { Dir::S };
                let c: Vec<usize> = (0..n).filter(|i| matches!(acts[*i], Some(Act::Step(q, d)) if d == fwd && w.m.board[q.0 as usize] == Some((side, Kind::R)))).collect();
                if !c.is_empty() && coin(r1, 0.8) {
                    pick_from(&c, r2)
                } else {
                    uniform
                }
            }
        }
    }
}
impl RandomSource {
    /// when a run continues from a stored state, the steering policies start with the boards that
    /// state's lineage went through instead of an empty memory
    pub fn remember_lineage(&mut self, w: &World) {
        let n = w.rec.lineage.len();
        for (k, _) in w.rec.lineage[n.saturating_sub(12)..].iter() {
            self.recent.push(*k);
        }
    }
}

impl Source for RandomSource {
    fn next_ops(&mut self, w: &World, info: &StateInfo, pool: usize) -> Vec<String> {
        if self.steps >= self.sw.cap {
            return vec![];
        }
        self.steps += 1;
        let mut ops = vec![];
        // fixed draw order, independent of the outcomes
        let snap = self.rng.chance(self.sw.snap);
        let rt = self.rng.chance(self.sw.rt);
        let fan2 = self.rng.chance(self.sw.fan2);
        let fan = self.rng.chance(self.sw.fan);
        let fork = self.rng.chance(self.sw.fork);
        let fork_k = self.rng.next();
        let dfs = self.rng.chance(self.sw.dfs);
        // crafted small positions: always expand the whole first turn
        let dfs = dfs || (self.steps == 1 && (self.sw.family == Family::TrapCluster || self.sw.family == Family::Motif || self.sw.family == Family::Confront || self.sw.family == Family::Elimination));
        // a turn that starts from a position which already stood twice: the repetition rules are
        // about to bite somewhere in this turn's tree, so expand it (drawn always, used sometimes)
        let cycle_coin = self.rng.chance(0.015);
        let in_cycle = !w.m.setup && w.m.steps_made() == 0 && w.rec.occurrences(&w.m.board, w.m.side) >= 2;
        let dfs = dfs || (cycle_coin && in_cycle);
        let restart = self.rng.chance(self.sw.restart);
        if snap {
            ops.push("!snap".to_string());
        }
        if rt {
            ops.push("?rt".to_string());
        }
        if dfs && !w.m.setup {
            ops.push("?turn".to_string());
        }
        // hardly any action left mid-turn and the pass still offered: manufacture the repetition
        let cycle_coin2 = self.rng.chance(0.5);
        if cycle_coin2 && !w.m.setup && w.m.steps_made() >= 1 && info.offered.len() <= 5 && info.offered.iter().any(|a| matches!(a, Action::Pass)) {
            ops.push("?cycle".to_string());
        }
        if fan2 {
            ops.push("?fan2".to_string());
        } else if fan {
            ops.push("?fan".to_string());
        }
        let pool_now = pool + snap as usize;
        if fork && pool_now > 0 {
            ops.push(format!("!fork:{}", fork_k % (pool_now.min(16)) as u64));
            return ops;
        }
        if restart {
            ops.push("!restart".to_string());
            return ops;
        }
        let i = self.choose(w, info);
        self.recent.push(board_key(&w.m.board));
        if self.recent.len() > 12 {
            self.recent.remove(0);
        }
        ops.push(info.offered[i].to_string());
        ops
    }
}

pub struct ReplaySource {
    pub ops: Vec<String>,
    pub pos: usize,
}
impl Source for ReplaySource {
    fn next_ops(&mut self, _w: &World, _info: &StateInfo, _pool: usize) -> Vec<String> {
        let mut out = vec![];
        while self.pos < self.ops.len() {
            let op = self.ops[self.pos].clone();
            self.pos += 1;
            let flag = op.starts_with('?') || op == "!snap";
            out.push(op);
            if !flag {
                break;
            }
        }
        out
    }
}

fn annotate(stop: Stop, ctxt: &str) -> Stop {
    match stop {
        Stop::Violation(mut f) => {
            f.detail = format!("[{}] {}", ctxt, f.detail);
            Stop::Violation(f)
        }
        s => s,
    }
}

fn fan_out(ctx: &mut Ctx, eq: &mut EqTable, w: &mut World, info: &StateInfo, depth: usize) -> Result<(), Stop> {
    ctx.stats.inc(if depth == 1 { "fan_out" } else { "fan_out_depth2" });
    for a in &info.offered {
        let cp = w.checkpoint();
        let r = (|| -> Result<(), Stop> {
            w.apply(ctx, a, true)?;
            if depth == 1 {
                w.check_cheap(ctx, eq)?;
            } else {
                let info2 = w.check_state(ctx, eq)?;
                if !info2.finished {
                    for a2 in &info2.offered {
                        let cp2 = w.checkpoint();
                        let r2 = w.apply(ctx, a2, true).and_then(|_| w.check_cheap(ctx, eq).map(|_| ()));
                        w.restore(cp2);
                        r2.map_err(|s| annotate(s, &format!("then {}", a2)))?;
                    }
                }
            }
            Ok(())
        })();
        w.restore(cp);
        ctx.stats.inc("fan_out_children");
        r.map_err(|s| annotate(s, &format!("fan-out child {}", a)))?;
    }
    Ok(())
}

/// Exhaustive expansion of the rest of the current turn (every step sequence until the turn ends)
/// by iterative deepening, so that a node budget cuts the deepest level rather than whole
/// branches: pass `level` visits the nodes at depth `level` with the monitors on and merely
/// re-applies the shallower steps.
fn turn_dfs(ctx: &mut Ctx, eq: &mut EqTable, w: &mut World, info: &StateInfo, budget: &mut usize, path: &mut Vec<String>, level: usize) -> Result<(), Stop> {
    let side = w.m.side;
    let depth = path.len() + 1;
    for a in &info.offered {
        if *budget == 0 {
            return Ok(());
        }
        let cp = w.checkpoint();
        path.push(a.to_string());
        let r = (|| -> Result<(), Stop> {
            if depth < level {
                // an inner node of this pass: it was checked by an earlier pass; re-apply quietly
                let saved = std::mem::replace(&mut ctx.own, 0);
                let ra = w.apply(ctx, a, false);
                ctx.own = saved;
                ra?;
                if w.m.side != side || w.m.steps_made() == 0 {
                    return Ok(());
                }
                let offered = eng!("valid_actions", w.gs.valid_actions());
                if offered.is_empty() || eng!("is_terminal", w.gs.is_terminal()).is_some() {
                    return Ok(());
                }
                let info2 = StateInfo { offered, norep: vec![], finished: false };
                return turn_dfs(ctx, eq, w, &info2, budget, path, level);
            }
            *budget -= 1;
            w.apply(ctx, a, true)?;
            ctx.stats.inc("turn_dfs_nodes");
            let ended = w.m.side != side || w.m.steps_made() == 0;
            // properties about lists and results need the full state check at every node; for the
            // others the edge monitors and the cheap state monitors decide
            let needs_full = if ended { ctx.own & (p(4) | p(7) | p(19)) != 0 } else { ctx.own & (p(1) | p(4) | p(5) | p(6) | p(7) | p(9) | p(12) | p(19)) != 0 };
            if needs_full {
                w.check_state(ctx, eq)?;
            } else {
                w.check_cheap(ctx, eq)?;
            }
            Ok(())
        })();
        w.restore(cp);
        let here = path.join(" ");
        path.pop();
        r.map_err(|s| annotate(s, &format!("turn expansion {}", here)))?;
    }
    Ok(())
}

/// Directed disturbance "?cycle": at a mid-turn state with hardly any action left where the pass
/// is still offered, manufacture the history in which that pass is barred: play the pass, restart
/// from the printed position (fresh history), find a
/// reversible one-step turn of the opponent after which the mover can undo its turn step by step,
/// undo both, and repeat, so that the same mid-turn board is reached again when the pass would be
/// a third occurrence.  Every action played is checked to be offered and every state on the way
/// goes through the full state check; the world is restored afterwards.  Returns how many states
/// were visited (0 if the construction is not possible here).
fn force_cycle(ctx: &mut Ctx, eq: &mut EqTable, w: &mut World, info: &StateInfo) -> Result<usize, Stop> {
    let s = w.m.steps_made();
    if w.m.setup || s == 0 || s > 3 || matches!(w.m.pending, Pending::Push(..)) || !info.offered.iter().any(|a| matches!(a, Action::Pass)) {
        return Ok(0);
    }
    // the mover's turn so far, as own reversible steps read off the recorded boards
    let tb = w.rec.turn_boards.clone();
    if tb.len() != s + 1 {
        ctx.stats.inc("forced_cycle.skip.turn_boards");
        return Ok(0);
    }
    let me = w.m.side;
    let mut turn: Vec<(Sq, Sq)> = vec![];
    for k in 0..s {
        let (a, b) = (&tb[k], &tb[k + 1]);
        let from: Vec<u8> = (0..64u8).filter(|i| a[*i as usize].is_some() && b[*i as usize].is_none()).collect();
        let to: Vec<u8> = (0..64u8).filter(|i| a[*i as usize].is_none() && b[*i as usize].is_some()).collect();
        if from.len() != 1 || to.len() != 1 || pieces(a) != pieces(b) {
            ctx.stats.inc("forced_cycle.skip.capture_in_turn");
            return Ok(0);
        }
        let pc = a[from[0] as usize].unwrap();
        let (q, t) = (Sq(from[0]), Sq(to[0]));
        // own piece, and not a rabbit that went forward (it could not come back)
        if pc.0 != me || b[t.0 as usize] != Some(pc) || (pc.1 == Kind::R && q.rank() != t.rank()) {
            ctx.stats.inc("forced_cycle.skip.irreversible_turn");
            return Ok(0);
        }
        turn.push((q, t));
    }
    let dir_of = |q: Sq, t: Sq| DIRS.iter().copied().find(|d| q.step(*d) == Some(t));
    let fwd: Vec<String> = turn.iter().filter_map(|(q, t)| dir_of(*q, *t).map(|d| Act::Step(*q, d).text())).collect();
    let back: Vec<String> = turn.iter().rev().filter_map(|(q, t)| dir_of(*t, *q).map(|d| Act::Step(*t, d).text())).collect();
    if fwd.len() != s || back.len() != s {
        return Ok(0);
    }
    // a full copy, not a checkpoint: the construction restarts from text, which resets the recorder
    let saved = w.clone();
    let mut visited = 0usize;
    // plays `text` if it is offered at the current state (full check first); Ok(false) if not offered
    fn play(ctx: &mut Ctx, eq: &mut EqTable, w: &mut World, text: &str, visited: &mut usize) -> Result<bool, Stop> {
        let info = w.check_state(ctx, eq)?;
        *visited += 1;
        if info.finished {
            return Ok(false);
        }
        match info.offered.iter().find(|a| a.to_string() == text) {
            Some(a) => {
                let a = *a;
                w.apply(ctx, &a, true)?;
                Ok(true)
            }
            None => Ok(false),
        }
    }
    let r = (|| -> Result<bool, Stop> {
        if !play(ctx, eq, w, "p", &mut visited)? {
            ctx.stats.inc("forced_cycle.skip.pass_not_playable");
            return Ok(false);
        }
        // restart from the durable text here: the position after the pass is now the first entry of a
        // fresh history, so that going round the cycle twice brings the turn's starting position
        // back only twice but the position after the pass a third time
        w.restart(ctx)?;
        // the opponent's candidate turns: one reversible own step, then pass
        let info_y = w.check_state(ctx, eq)?;
        let you = w.m.side;
        let mut found: Option<(String, String)> = None;
        for a in &info_y.offered {
            let text = a.to_string();
            let (q, d) = match Act::parse(&text) {
                Some(Act::Step(q, d)) => (q, d),
                _ => continue,
            };
            let pc = match w.m.board[q.0 as usize] {
                Some(pc) if pc.0 == you => pc,
                _ => continue,
            };
            let t = match q.step(d) {
                Some(t) => t,
                None => continue,
            };
            if pc.1 == Kind::R && q.rank() != t.rank() {
                continue;
            }
            let undo = match dir_of(t, q) {
                Some(d2) => Act::Step(t, d2).text(),
                None => continue,
            };
            // feasibility probe on a checkpoint: a, pass, mover undoes its turn, pass, opponent undoes, pass
            let cp2 = w.checkpoint();
            let ok = (|| -> Result<bool, Stop> {
                let mut seq: Vec<String> = vec![text.clone(), "p".into()];
                seq.extend(back.iter().cloned());
                seq.push("p".into());
                seq.push(undo.clone());
                seq.push("p".into());
                for op in &seq {
                    if !play(ctx, eq, w, op, &mut visited)? {
                        return Ok(false);
                    }
                }
                Ok(w.m.board == tb[0] && w.m.side == me)
            })();
            w.restore(cp2);
            if ok? {
                found = Some((text, undo));
                break;
            }
            if visited > 600 {
                break;
            }
        }
        let (a_y, undo_y) = match found {
            Some(x) => x,
            None => {
                ctx.stats.inc("forced_cycle.skip.no_opponent_turn_allows_undo");
                return Ok(false);
            }
        };
        // one and a half times round the cycle: first undo everything, go round once more, then the turn again
        let mut seq: Vec<String> = vec![a_y.clone(), "p".into()];
        seq.extend(back.iter().cloned());
        seq.extend(["p".to_string(), undo_y.clone(), "p".to_string()]);
        seq.extend(fwd.iter().cloned());
        seq.extend(["p".to_string(), a_y, "p".to_string()]);
        seq.extend(back.iter().cloned());
        seq.extend(["p".to_string(), undo_y, "p".to_string()]);
        seq.extend(fwd.iter().cloned());
        for (k, op) in seq.iter().enumerate() {
            if !play(ctx, eq, w, op, &mut visited)? {
                ctx.stats.inc(&format!("forced_cycle.skip.round_broke_at_{}", k));
                return Ok(false);
            }
        }
        // the state of interest: same board and step as at the start, the pass now a third occurrence
        w.check_state(ctx, eq)?;
        visited += 1;
        Ok(true)
    })();
    *w = saved;
    match r {
        Ok(true) => {
            ctx.stats.inc("forced_cycles_completed");
            Ok(visited)
        }
        Ok(false) => Ok(0),
        Err(st) => Err(annotate(st, "forced repetition cycle")),
    }
}

pub struct RunOutcome {
    pub stop: Option<Stop>,
    /// index into the trace of the operation during which the run stopped (trace.len() = in the
    /// state check after the last operation)
    pub op_index: usize,
    pub final_diagram: Option<String>,
    pub final_turn_start: bool,
}

/// run one simulated game
pub fn execute(ctx: &mut Ctx, eq: &mut EqTable, start: &Start, src: &mut dyn Source, trace: &mut Vec<String>) -> RunOutcome {
    execute_from(ctx, eq, start, None, src, trace, &mut vec![])
}

/// a state worth starting later runs from: (feature key, operations that led to it, the state)
pub type Candidate = (u64, Vec<String>, World, u32);

/// like `execute`, optionally continuing from a snapshot that `trace` (already filled) leads to
pub fn execute_from(ctx: &mut Ctx, eq: &mut EqTable, start: &Start, snapshot: Option<World>, src: &mut dyn Source, trace: &mut Vec<String>, candidates: &mut Vec<Candidate>) -> RunOutcome {
    eq.clear();
    ctx.findings.clear();
    ctx.run_features.clear();
    let mut op_index = 0usize;
    let mut fin: (Option<String>, bool) = (None, false);
    let r = (|| -> Result<(), Stop> {
        let mut w = match (snapshot, start) {
            (Some(w), _) => w,
            (None, Start::Initial) => World::initial(),
            (None, Start::Diagram(t)) => World::from_diagram(ctx, t)?,
        };
        // snapshots, each with one action offered at snapshot time that is applied only when the
        // run later branches back to it (deferred expansion, as a search does with a stored node:
        // nothing is asked of the state again before the action is applied to it)
        let mut pool: Vec<(World, Option<Action>)> = vec![];
        let mut snaps = 0usize;
        loop {
            op_index = trace.len();
            let info = w.check_state(ctx, eq)?;
            fin = (Some(w.m.diagram()), !w.m.setup && w.m.steps_made() == 0);
            if ctx.record_turn_starts && fin.1 {
                ctx.turn_starts.push((trace.len(), w.m.diagram()));
            }
            if ctx.guided {
                if let Some(k) = ctx.last_feature.take() {
                    if !ctx.known_features.contains(&k) && ctx.run_features.insert(k) && candidates.len() < 6 && trace.len() <= 300 && !info.finished && w.m.move_no < crate::scenario::EDGE_MOVE_NUMBER {
                        candidates.push((k, trace.clone(), w.clone(), ctx.last_feature_weight));
                    }
                }
            }
            if info.finished {
                ctx.stats.inc("runs_ended_by_result");
                break;
            }
            if w.cause == Cause::Place && !w.m.setup && w.m.steps_made() == 0 {
                // a finished setup must hash and print like the same position parsed from text
                w.check_roundtrip(ctx)?;
            }
            let ops = src.next_ops(&w, &info, pool.len());
            if ops.is_empty() {
                break;
            }
            for op in ops {
                op_index = trace.len();
                trace.push(op.clone());
                match op.as_str() {
                    "?fan" => fan_out(ctx, eq, &mut w, &info, 1)?,
                    "?fan2" => fan_out(ctx, eq, &mut w, &info, 2)?,
                    "?cycle" => {
                        ctx.stats.inc("forced_cycles_tried");
                        let n = force_cycle(ctx, eq, &mut w, &info)?;
                        ctx.stats.add("forced_cycle_states", n as u64);
                    }
                    "?turn" => {
                        ctx.stats.inc("turn_dfs");
                        // crafted small positions have small turn trees: afford them completely
                        let small = pieces(&w.m.board) <= 9;
                        let mut budget = if small { ctx.dfs_budget * 3 } else { ctx.dfs_budget };
                        let max_level = 4usize.saturating_sub(w.m.steps_made());
                        for level in 1..=max_level {
                            if budget == 0 {
                                break;
                            }
                            turn_dfs(ctx, eq, &mut w, &info, &mut budget, &mut vec![], level)?;
                        }
                    }
                    "?rt" => {
                        w.check_roundtrip(ctx)?;
                    }
                    "!snap" => {
                        let deferred = if info.finished || info.offered.is_empty() { None } else { Some(info.offered[(snaps * 7 + 3) % info.offered.len()].clone()) };
                        if pool.len() < 16 {
                            pool.push((w.clone(), deferred));
                        } else {
                            pool[snaps % 16] = (w.clone(), deferred);
                        }
                        snaps += 1;
                    }
                    "!restart" => w.restart(ctx)?,
                    o if o.starts_with("!fork:") => {
                        let k: usize = o[6..].parse().map_err(|_| Stop::Invalid(format!("bad op {}", o)))?;
                        if k >= pool.len() {
                            return Err(Stop::Invalid(format!("{}: only {} snapshots", o, pool.len())));
                        }
                        w = pool[k].0.clone();
                        w.cause = Cause::Fork;
                        ctx.stats.inc("fault.fork");
                        if let Some(a) = pool[k].1.clone() {
                            ctx.stats.inc("fault.fork.deferred_expansion");
                            w.apply(ctx, &a, true)?;
                        }
                    }
                    o => {
                        let a = info.offered.iter().find(|a| a.to_string() == o).ok_or_else(|| Stop::Invalid(format!("action {} is not offered here", o)))?;
                        w.apply(ctx, a, true)?;
                    }
                }
            }
        }
        Ok(())
    })();
    RunOutcome { stop: r.err(), op_index, final_diagram: fin.0, final_turn_start: fin.1 }
}

/// number of ways to complete a row of `n` more placements when `used[k]` pieces of kind k are down
fn rows_from(n: usize, used: [usize; 6]) -> u64 {
    if n == 0 {
        return 1;
    }
    let mut t = 0;
    for k in KINDS {
        if used[k as usize] < k.quota() {
            let mut u = used;
            u[k as usize] += 1;
            t += rows_from(n - 1, u);
        }
    }
    t
}
pub const FIRST_ROWS: u64 = 216_481;
/// the `rank`-th first row (8 placements) in lexicographic order of KINDS
pub fn first_row(rank: u64) -> [Kind; 8] {
    let mut r = rank % FIRST_ROWS;
    let mut used = [0usize; 6];
    let mut out = [Kind::R; 8];
    for (i, slot) in out.iter_mut().enumerate() {
        for k in KINDS {
            if used[k as usize] >= k.quota() {
                continue;
            }
            let mut u = used;
            u[k as usize] += 1;
            let c = rows_from(7 - i, u);
            if r < c {
                *slot = k;
                used = u;
                break;
            }
            r -= c;
        }
    }
    out
}
