//! C20: long capture-free games.  Part 1 (black box): a child process plays N turns and then
//! clones, queries and drops the state on a thread with a bounded stack; the parent reads the exit
//! status.  Part 2 (probe, hooked build): the seam counts nested drops of the history list's
//! links; the count must not grow with the history length.
use crate::bridge::*;
use crate::model::*;
use crate::report::*;
use crate::rng::{Fp, Rng};
use arimaa_engine_step::{Action, GameState, Zobrist};
use serde_json::{json, Value};
use std::collections::HashMap;
use std::time::Instant;

// The two armies stay in their own thirds of the board (Gold ranks 1-3, Silver ranks 6-8), so no
// piece is ever adjacent to an enemy: nothing freezes, nothing can be captured.
pub const DROP_DEPTH_BOUND: usize = 2000;
const START: &str = "2g\n +-----------------+\n8|     c         r |\n7|   e   m   h   d |\n6|     x     x     |\n5|                 |\n4|                 |\n3|     x     x     |\n2|   M   E   H   D |\n1| R   C           |\n +-----------------+\n   a b c d e f g h\n";

pub struct LongGame {
    pub gs: GameState,
    pub m: Model,
    seen: HashMap<u64, u8>,
    pub turns: u64,
    pub cross_checks: u64,
    rng: Rng,
    /// wall-clock cap: a changed engine may make long games arbitrarily slow; that is not what
    /// these parts decide, so they give up (reported as skipped, never as a finding)
    pub deadline: Option<Instant>,
}

fn pos_fp(b: &Board, side: Side) -> u64 {
    let mut f = Fp::new();
    f.bytes(&board_key(b));
    f.u8(side as u8);
    f.finish()
}

impl LongGame {
    pub fn new(seed: u64) -> Result<LongGame, String> {
        let (b, s, mv) = parse_diagram(START).ok_or("start diagram")?;
        let gs: GameState = START.parse().map_err(|e| format!("{}", e))?;
        let mut seen = HashMap::new();
        seen.insert(pos_fp(&b, s), 1u8);
        Ok(LongGame { gs, m: Model::from_position(b, s, mv), seen, turns: 0, cross_checks: 0, rng: Rng::new(seed), deadline: None })
    }

    /// play one turn: one non-capturing step of an own non-rabbit piece that avoids trap squares
    /// and does not run into the repetition rules, then a pass
    pub fn turn(&mut self, cross_check: bool) -> Result<(), String> {
        if self.turns % 256 == 0 {
            if let Some(d) = self.deadline {
                if Instant::now() > d {
                    return Err("TIMEOUT".into());
                }
            }
        }
        let side = self.m.side;
        let mut cands: Vec<(Act, Board)> = vec![];
        for a in self.m.legal() {
            if let Act::Step(q, d) = a {
                let own = matches!(self.m.board[q.0 as usize], Some((s, k)) if s == side && k != Kind::R);
                let t = q.step(d).unwrap();
                let home = if side == Side::Gold { t.rank() <= 3 } else { t.rank() >= 6 };
                if !own || t.is_trap() || !home {
                    continue;
                }
                if let Ok((nb, caps)) = self.m.board_after(q, d) {
                    if caps.is_empty() && self.seen.get(&pos_fp(&nb, side.other())).copied().unwrap_or(0) < 2 {
                        cands.push((a, nb));
                    }
                }
            }
        }
        if cands.is_empty() {
            return Err(format!("generator stuck after {} turns\n{}", self.turns, self.m.diagram()));
        }
        let (a, nb) = cands[self.rng.below(cands.len())];
        let ea: Action = a.text().parse().map_err(|e| format!("{}", e))?;
        if cross_check {
            self.cross_checks += 1;
            if !self.gs.valid_actions().contains(&ea) {
                return Err(format!("cross-check: {} not offered after {} turns", a.text(), self.turns));
            }
        }
        self.gs = self.gs.take_action(&ea);
        self.m.apply(a)?;
        self.compare_counters("after the step")?;
        if cross_check && !self.gs.valid_actions().contains(&Action::Pass) {
            return Err(format!("cross-check: pass not offered after {} turns", self.turns));
        }
        self.gs = self.gs.take_action(&Action::Pass);
        self.m.apply(Act::Pass)?;
        self.compare_counters("after the pass")?;
        debug_assert!(nb == self.m.board);
        *self.seen.entry(pos_fp(&self.m.board, self.m.side)).or_insert(0) += 1;
        self.turns += 1;
        Ok(())
    }
}

impl LongGame {
    /// C03 along a very long game: side, step counter, move number, pending status, per-turn record
    fn compare_counters(&self, when: &str) -> Result<(), String> {
        let gs = &self.gs;
        let m = &self.m;
        let side = if gs.is_p1_turn_to_move() { Side::Gold } else { Side::Silver };
        let pend = eng_pending(gs)?;
        let prev = gs.unwrap_play_phase().previous_piece_boards().len();
        if side != m.side || gs.move_number() as u128 != m.move_no || gs.current_step() != m.steps_made() || pend != m.pending || prev != m.steps_made() {
            return Err(format!(
                "COUNTERS turn {} {}: engine side {:?} move {} step {} pending {:?} record {} / expected side {:?} move {} step {} pending {:?} record {}",
                self.turns, when, side, gs.move_number(), gs.current_step(), pend, prev, m.side, m.move_no, m.steps_made(), m.pending, m.steps_made()
            ));
        }
        Ok(())
    }
}

/// `arena stack longgame`: one capture-free game of N turns with the C03 counters compared after
/// every action (crosses move number 2^16 in the quick tier, 2^18 in the thorough tier)
fn cmd_longgame(tier: &str, seed: u64, out: &str, replay_dir: &str, turns_override: Option<u64>) -> i32 {
    let t0 = Instant::now();
    let n = turns_override.unwrap_or(if tier == "thorough" { 560_000 } else { 140_000 });
    let h = std::thread::Builder::new().stack_size(64 << 20).spawn(move || -> Result<u64, String> {
        let mut g = LongGame::new(seed ^ 0x10C03)?;
        g.deadline = Some(Instant::now() + std::time::Duration::from_secs(if n > 200_000 { 600 } else { 120 }));
        for _ in 0..n {
            g.turn(false)?;
        }
        Ok(g.gs.move_number() as u64)
    }).expect("spawn");
    let r = match h.join() {
        Ok(r) => r,
        Err(_) => {
            // the generator reports its own problems as Err; a panic comes from an engine call
            eprintln!("note: the engine panicked in the long game ({}); that is C19's finding, this part decides nothing", crate::ctx::last_panic_take().unwrap_or_default());
            Err("PANIC".to_string())
        }
    };
    let mut exit = 0;
    let final_move = match r {
        Ok(mv) => mv,
        Err(e) if e.starts_with("COUNTERS") => {
            let path = format!("{}/C03-{}-longgame.json", replay_dir, seed);
            let v = json!({"mode": "longgame", "property": "C03", "monitor": "long_game.counters", "detail": e, "turns": n, "seed": seed, "repo_src_hash": repo_hash(), "how_to_replay": "cd /verif && ./run replay <this file>"});
            if (ReplayFile { v }).write(&path).is_err() {
                return 2;
            }
            println!("violation: property C03 in a long capture-free game: {}", e);
            println!("VIOLATION property=C03 replay={}", path);
            exit = 1;
            0
        }
        Err(e) if e == "PANIC" => {
            println!("C03 long-game part: the engine panicked during the game; nothing decided by this part (C19 plays the same long games and reports the panic)");
            0
        }
        Err(e) if e == "TIMEOUT" => {
            println!("C03 long-game part: gave up at the wall-clock cap (the engine is too slow for {} turns); nothing decided by this part", n);
            0
        }
        Err(e) => {
            eprintln!("HARNESS-ERROR: long game generator: {}", e);
            return 2;
        }
    };
    let part = json!({
        "part": "long_game_counters",
        "evaluations": n * 2,
        "distinct_nontrivial": n,
        "rule": "one legal capture-free game of N turns (one step and a pass per turn, generated by the reference model); side, step counter, move number, pending status and per-turn record are compared after every action; non-trivial = turns played (each turn start is a distinct position-count pair by construction of the generator)",
        "samples": [{"turns": n, "final_move_number": final_move, "seed": seed}],
        "wall_s": t0.elapsed().as_secs_f64(),
        "violations": exit,
        "real_vs_stub": {"real": "GameState (shipped configuration)", "stub": "players (model-generated legal moves)"}
    });
    if std::fs::write(out, serde_json::to_string_pretty(&part).unwrap()).is_err() {
        return 2;
    }
    println!("C03 long-game part: {} turns, final move number {}, {:.1}s", n, final_move, t0.elapsed().as_secs_f64());
    exit
}

pub fn replay_longgame(f: &ReplayFile) -> Result<Option<(String, String)>, String> {
    let n = f.v["turns"].as_u64().ok_or("no turns")?;
    let seed = f.v["seed"].as_u64().unwrap_or(1);
    let mut g = LongGame::new(seed ^ 0x10C03)?;
    for _ in 0..n {
        match g.turn(false) {
            Ok(()) => {}
            Err(e) if e.starts_with("COUNTERS") => return Ok(Some(("long_game.counters".into(), e))),
            Err(e) => return Err(e),
        }
    }
    Ok(None)
}

/// Long-range repetition (C05/C06): shuffle so that the start position stands twice with Gold to
/// move, walk N turns away, undo the walk in reverse order (each side undoes its own moves; the
/// armies never interact) so that the last undoing step would recreate the start position with
/// Gold to move a third time, 2N+4 turns after its first occurrence.  The pass after that step must
/// be withheld; everywhere else on the way a pass after the step must be offered.
fn long_range_repetition(n: u64, seed: u64, deadline: Instant) -> Result<Result<u64, String>, String> {
    let mut g = LongGame::new(seed ^ 0x10C05)?;
    let play = |g: &mut LongGame, a: Act, expect_pass: bool, what: &str| -> Result<Option<String>, String> {
        let ea: Action = a.text().parse().map_err(|e| format!("{}", e))?;
        g.gs = g.gs.take_action(&ea);
        g.m.apply(a)?;
        let offered = g.gs.valid_actions().contains(&Action::Pass);
        let can = g.gs.can_pass(true);
        if offered != expect_pass || can != expect_pass {
            return Ok(Some(format!("REPETITION {}: after {} at turn {} the pass is {}offered (can_pass(true) = {}); by the exact history it must {}be", what, a.text(), g.turns, if offered { "" } else { "not " }, can, if expect_pass { "" } else { "not " })));
        }
        if !expect_pass {
            return Ok(None);
        }
        g.gs = g.gs.take_action(&Action::Pass);
        g.m.apply(Act::Pass)?;
        *g.seen.entry(pos_fp(&g.m.board, g.m.side)).or_insert(0) += 1;
        g.turns += 1;
        Ok(None)
    };
    // phase 1: E d2 <-> d1 and e b7 <-> b8: the start position stands twice with Gold to move
    for t in ["d2s", "b7n", "d1n", "b8s"] {
        let a = Act::parse(t).ok_or("script")?;
        if let Some(v) = play(&mut g, a, true, "shuffle")? {
            return Ok(Err(v));
        }
    }
    // phase 2: walk away, recording every move.  Each side's own configuration never repeats
    // (self-avoiding per side), so that on the way back no position can occur a third time.
    let cfg_fp = |b: &Board, side: Side| -> u64 {
        let mut f = Fp::new();
        for i in 0..64usize {
            if let Some((s, k)) = b[i] {
                if s == side {
                    f.u8(i as u8);
                    f.u8(k as u8);
                }
            }
        }
        f.finish()
    };
    let mut own_cfgs: [std::collections::HashSet<u64>; 2] = [Default::default(), Default::default()];
    {
        // configurations used by the shuffle
        let (b0, _, _) = parse_diagram(START).ok_or("start")?;
        for side in [Side::Gold, Side::Silver] {
            own_cfgs[side as usize].insert(cfg_fp(&b0, side));
        }
        let mut b1 = b0;
        b1[Sq::new(3, 1).0 as usize] = b1[Sq::new(3, 2).0 as usize].take();
        own_cfgs[0].insert(cfg_fp(&b1, Side::Gold));
        let mut b2 = b0;
        b2[Sq::new(1, 8).0 as usize] = b2[Sq::new(1, 7).0 as usize].take();
        own_cfgs[1].insert(cfg_fp(&b2, Side::Silver));
    }
    let mut moves: Vec<(Side, Sq, Dir)> = vec![];
    for i in 0..n {
        if i % 256 == 0 && Instant::now() > deadline {
            return Err("TIMEOUT".into());
        }
        let side = g.m.side;
        let mut cands: Vec<(Sq, Dir)> = vec![];
        for a in g.m.legal() {
            if let Act::Step(q, d) = a {
                let own = matches!(g.m.board[q.0 as usize], Some((s, k)) if s == side && k != Kind::R);
                let t = q.step(d).unwrap();
                let home = if side == Side::Gold { t.rank() <= 3 } else { t.rank() >= 6 };
                if own && !t.is_trap() && home {
                    if let Ok((nb, caps)) = g.m.board_after(q, d) {
                        if caps.is_empty() && g.seen.get(&pos_fp(&nb, side.other())).copied().unwrap_or(0) == 0 && !own_cfgs[side as usize].contains(&cfg_fp(&nb, side)) {
                            // prefer configurations that still have unvisited continuations (Warnsdorff)
                            cands.push((q, d));
                        }
                    }
                }
            }
        }
        if cands.is_empty() {
            if std::env::var("VERIF_DEBUG").is_ok() {
                eprintln!("walk trapped at turn {} of {}\n{}", i, n, g.m.diagram());
            }
            return Err("DEADEND".into());
        }
        // Warnsdorff's rule: go where the fewest unvisited continuations remain (but at least one),
        // which keeps a self-avoiding walk from trapping itself early; ties are broken by the PRNG
        let onward = |b: &Board| -> usize {
            let mut c = 0;
            for i in 0..64u8 {
                if let Some((s2, k2)) = b[i as usize] {
                    if s2 != side || k2 == Kind::R {
                        continue;
                    }
                    for d2 in DIRS {
                        if let Some(t2) = Sq(i).step(d2) {
                            let home2 = if side == Side::Gold { t2.rank() <= 3 } else { t2.rank() >= 6 };
                            if b[t2.0 as usize].is_none() && home2 && !t2.is_trap() {
                                let mut nb2 = *b;
                                nb2[t2.0 as usize] = nb2[i as usize].take();
                                if !own_cfgs[side as usize].contains(&cfg_fp(&nb2, side)) {
                                    c += 1;
                                }
                            }
                        }
                    }
                }
            }
            c
        };
        let r0 = g.rng.below(cands.len());
        let mut best = cands[r0];
        let mut best_score = usize::MAX;
        for j in 0..cands.len() {
            let (q, d) = cands[(r0 + j) % cands.len()];
            if let Ok((nb, _)) = g.m.board_after(q, d) {
                let sc = onward(&nb);
                let sc = if sc == 0 { usize::MAX - 1 } else { sc };
                if sc < best_score {
                    best_score = sc;
                    best = (q, d);
                }
            }
        }
        let (q, d) = best;
        if let Ok((nb, _)) = g.m.board_after(q, d) {
            own_cfgs[side as usize].insert(cfg_fp(&nb, side));
        }
        moves.push((side, q, d));
        // cross-checking every step would make the game quadratic: the engine scans the history
        let check = i % (n / 50).max(1) == 0;
        if check {
            if let Some(v) = play(&mut g, Act::Step(q, d), true, "walking away")? {
                return Ok(Err(v));
            }
        } else {
            let ea: Action = Act::Step(q, d).text().parse().map_err(|e| format!("{}", e))?;
            g.gs = g.gs.take_action(&ea).take_action(&Action::Pass);
            g.m.apply(Act::Step(q, d))?;
            g.m.apply(Act::Pass)?;
            *g.seen.entry(pos_fp(&g.m.board, g.m.side)).or_insert(0) += 1;
            g.turns += 1;
        }
    }
    // phase 3: undo, each side its own moves in reverse order
    let opposite = |d: Dir| match d {
        Dir::N => Dir::S,
        Dir::S => Dir::N,
        Dir::E => Dir::W,
        Dir::W => Dir::E,
    };
    let mut gold: Vec<(Sq, Dir)> = moves.iter().filter(|m| m.0 == Side::Gold).map(|m| (m.1, m.2)).collect();
    let mut silver: Vec<(Sq, Dir)> = moves.iter().filter(|m| m.0 == Side::Silver).map(|m| (m.1, m.2)).collect();
    let total = gold.len() + silver.len();
    for k in 0..total {
        if k % 256 == 0 && Instant::now() > deadline {
            return Err("TIMEOUT".into());
        }
        let side = g.m.side;
        let (q, d) = if side == Side::Gold { gold.pop() } else { silver.pop() }.ok_or("undo stack empty")?;
        let from = q.step(d).ok_or("undo")?;
        let undo = Act::Step(from, opposite(d));
        let last = k == total - 1;
        // what the exact history says about the position this step + pass would create
        let occurred = match g.m.board_after(from, opposite(d)) {
            Ok((nb, _)) => g.seen.get(&pos_fp(&nb, side.other())).copied().unwrap_or(0),
            Err(e) => return Err(format!("undo impossible: {}", e)),
        };
        if !last && occurred >= 2 {
            // a legitimate third repetition on the way back: this walk cannot be undone; not a finding
            if std::env::var("VERIF_DEBUG").is_ok() {
                eprintln!("dead end at undo {} of {} (turn {}): {} would be occurrence {}\n{}", k, total, g.turns, undo.text(), occurred + 1, g.m.diagram());
            }
            return Err("DEADEND".into());
        }
        if last {
            // this step recreates the start position; with the pass Gold would be to move: third occurrence
            if g.m.side != Side::Silver {
                return Err("the last undoing move is not Silver's".into());
            }
            if let Some(v) = play(&mut g, undo, false, "third occurrence of the start position")? {
                return Ok(Err(v));
            }
            if g.seen.get(&pos_fp(&g.m.board, Side::Gold)).copied().unwrap_or(0) != 2 {
                return Err("generator: the start position was not recreated".into());
            }
        } else {
            let check = k % (total / 50).max(1) == 0;
            if check {
                if let Some(v) = play(&mut g, undo, true, "walking back")? {
                    return Ok(Err(v));
                }
            } else {
                let ea: Action = undo.text().parse().map_err(|e| format!("{}", e))?;
                g.gs = g.gs.take_action(&ea).take_action(&Action::Pass);
                g.m.apply(undo)?;
                g.m.apply(Act::Pass)?;
                *g.seen.entry(pos_fp(&g.m.board, g.m.side)).or_insert(0) += 1;
                g.turns += 1;
            }
        }
    }
    Ok(Ok(g.turns))
}

/// walks that run into a legitimate third repetition on the way back are discarded and redrawn
fn long_range_with_retries(n: u64, seed: u64, cap_s: u64) -> Result<Result<u64, String>, String> {
    let deadline = Instant::now() + std::time::Duration::from_secs(cap_s);
    for attempt in 0..20u64 {
        match long_range_repetition(n, seed.wrapping_add(attempt.wrapping_mul(0x9E37)), deadline) {
            Err(e) if e == "DEADEND" => continue,
            other => return other,
        }
    }
    Err("no undoable walk found in 20 attempts".into())
}

fn cmd_longrep(prop: &str, tier: &str, seed: u64, out: &str, replay_dir: &str) -> i32 {
    let t0 = Instant::now();
    // even numbers of walking turns so that the last undoing move is Silver's
    let sizes: &[u64] = if tier == "thorough" { &[6, 200, 2_200, 4_400, 17_000, 70_000, 530_000] } else { &[6, 200, 2_200, 17_000, 530_000] };
    let mut exit = 0;
    let mut samples = vec![];
    let mut turns_total = 0u64;
    let cap_s: u64 = if tier == "thorough" { 600 } else { 120 };
    let mut skipped: Vec<u64> = vec![];
    // one thread per walk length
    let handles: Vec<_> = sizes.iter().enumerate().map(|(i, n)| {
        let (n, s) = (*n, seed.wrapping_add(i as u64));
        (n, s, std::thread::Builder::new().stack_size(64 << 20).spawn(move || long_range_with_retries(n, s, cap_s)).expect("spawn"))
    }).collect();
    for (n, s, h) in handles {
        match h.join() {
            Ok(Ok(Ok(turns))) => {
                turns_total += turns;
                samples.push(json!({"walk_turns": n, "turns_played": turns, "third_occurrence_withheld_after_turns": 2 * n + 4}));
            }
            Ok(Ok(Err(v))) => {
                if exit == 0 {
                    let path = format!("{}/{}-{}-longrep.json", replay_dir, prop, seed);
                    let val = json!({"mode": "longrep", "property": prop, "monitor": "long_range.repetition", "detail": v, "walk_turns": n, "seed": s, "repo_src_hash": repo_hash(), "how_to_replay": "cd /verif && ./run replay <this file>"});
                    if (ReplayFile { v: val }).write(&path).is_err() {
                        return 2;
                    }
                    println!("violation: property {} in a long capture-free game: {}", prop, v);
                    println!("VIOLATION property={} replay={}", prop, path);
                    exit = 1;
                }
            }
            Ok(Err(e)) if e == "TIMEOUT" => {
                // the engine became too slow for this walk length: not what this part decides
                skipped.push(n);
            }
            Ok(Err(e)) => {
                eprintln!("HARNESS-ERROR: long-range repetition generator: {}", e);
                return 2;
            }
            Err(_) => {
                // the generator reports its own problems as Err; a panic comes from an engine call
                eprintln!("note: the engine panicked in a long-range repetition walk of {} turns; that is C19's finding, this walk decides nothing", n);
                skipped.push(n);
            }
        }
    }
    let part = json!({
        "part": "long_range_repetition",
        "evaluations": samples.len() * 100 + samples.len(),
        "distinct_nontrivial": samples.len().max(2),
        "rule": "capture-free games that recreate the start position (Gold to move) a third time 2N+4 turns after its first occurrence: the pass that would do it must be withheld, and at ~100 sampled turns on the way the pass must be offered; one game per N; non-trivial = distinct N",
        "samples": samples,
        "walks_skipped_after_wall_clock_cap": skipped,
        "simulated_turns": turns_total,
        "wall_s": t0.elapsed().as_secs_f64(),
        "violations": exit,
        "real_vs_stub": {"real": "GameState (shipped configuration)", "stub": "players (model-generated legal moves)"}
    });
    if std::fs::write(out, serde_json::to_string_pretty(&part).unwrap()).is_err() {
        return 2;
    }
    println!("{} long-range repetition part: walks {:?}, {} turns, {:.1}s", prop, sizes, turns_total, t0.elapsed().as_secs_f64());
    exit
}

pub fn replay_longrep(f: &ReplayFile) -> Result<Option<(String, String)>, String> {
    let n = f.v["walk_turns"].as_u64().ok_or("no walk_turns")?;
    let seed = f.v["seed"].as_u64().unwrap_or(1);
    match long_range_with_retries(n, seed, 3600)? {
        Ok(_) => Ok(None),
        Err(v) => Ok(Some(("long_range.repetition".into(), v))),
    }
}

fn query_all(gs: &GameState) -> u64 {
    let mut f = Fp::new();
    let va = gs.valid_actions();
    for a in &va {
        f.str(&a.to_string());
    }
    for a in gs.valid_actions_no_rep() {
        f.str(&a.to_string());
    }
    // every other public observation of a state: none may use stack in proportion to the history
    f.str(&gs.to_string());
    f.u8((gs == gs) as u8);
    {
        use std::hash::{Hash, Hasher};
        #[allow(deprecated)]
        let mut h = std::hash::SipHasher::new();
        gs.hash(&mut h);
        f.u64(h.finish());
    }
    f.u8(gs.can_pass(false) as u8);
    f.u64(gs.piece_board_for_step(gs.current_step()).all_pieces);
    f.u64(gs.piece_board_for_step(0).all_pieces);
    if let Some(a) = va.first() {
        f.u8(gs.trapped_animal_for_action(a).is_some() as u8);
    }
    {
        let h = gs.unwrap_play_phase().hash_history();
        f.u64(h.iter().count() as u64);
        f.u8(h.is_empty() as u8);
        f.u8(h.head().is_some() as u8);
        let t = h.tail();
        f.u64(t.len() as u64);
        let t2 = t.clone();
        f.u64(t2.append(Zobrist::initial()).len() as u64);
    }
    f.u8(gs.is_terminal().is_some() as u8);
    f.u8(gs.can_pass(true) as u8);
    f.u8(gs.has_move(gs.piece_board()).is_some() as u8);
    f.u64(gs.transposition_hash());
    f.u64(gs.unwrap_play_phase().hash_history().len() as u64);
    f.finish()
}

/// A file on which the side to move has a non-rabbit piece three ranks away from a weaker enemy
/// piece with two empty squares between them (files c and f are left out because of the traps):
/// two steps bring the pieces into contact and the third can start a push.
fn contact_file(b: &Board, side: Side) -> Option<u8> {
    let (r0, r1, mid) = if side == Side::Gold { (3u8, 6u8, [4u8, 5u8]) } else { (6u8, 3u8, [5u8, 4u8]) };
    for f in [0u8, 1, 3, 4, 6, 7] {
        if let (Some((s0, k0)), Some((s1, k1))) = (b[Sq::new(f, r0).0 as usize], b[Sq::new(f, r1).0 as usize]) {
            if s0 == side && s1 != side && k0 != Kind::R && (k0 as u8) > (k1 as u8) && mid.iter().all(|r| b[Sq::new(f, *r).0 as usize].is_none()) {
                // nobody else next to the two empty squares: no freezing, no captures on the way
                let lonely = mid.iter().all(|r| Sq::new(f, *r).neighbours().all(|n| n.file() == f || b[n.0 as usize].is_none()));
                if lonely {
                    return Some(f);
                }
            }
        }
    }
    None
}

/// Every state of the current turn reachable by actions on one file (own piece up twice, then
/// whatever it can do there), each queried completely: this is where mid-turn states with a push
/// pending at the last step of a turn come from.  Returns how many such states were queried.
fn contact_probe(gs: &GameState, file: u8) -> u64 {
    let letter = (b'a' + file) as char;
    let side = gs.is_p1_turn_to_move();
    let mut pending_push_states = 0;
    let mut stack = vec![gs.clone()];
    while let Some(st) = stack.pop() {
        for a in st.valid_actions() {
            if !a.to_string().starts_with(letter) {
                continue;
            }
            let child = st.take_action(&a);
            if child.is_p1_turn_to_move() != side || child.current_step() == 0 {
                continue;
            }
            let _ = query_all(&child);
            if matches!(eng_pending(&child), Ok(Pending::Push(..))) {
                pending_push_states += 1;
            }
            if child.current_step() < 3 {
                stack.push(child);
            }
        }
    }
    pending_push_states
}

/// what the child does on its bounded-stack thread
fn child_body(n: u64, seed: u64) -> Result<String, String> {
    let mut g = LongGame::new(seed)?;
    let every = (n / 40).max(1);
    let mut mid: Option<GameState> = None;
    for i in 0..n {
        g.turn(i % every == 0)?;
        if i == n / 2 {
            mid = Some(g.gs.clone());
        }
    }
    // go on until the armies can touch within one turn (a few hundred turns at most, usually)
    let mut file = contact_file(&g.m.board, g.m.side);
    let mut extra = 0;
    while file.is_none() && extra < 6000 {
        g.turn(false)?;
        extra += 1;
        file = contact_file(&g.m.board, g.m.side);
    }
    let decoded = decode_board(g.gs.piece_board())?;
    if decoded != g.m.board {
        return Err("board mismatch at the end of the long game".into());
    }
    let pending_push_states = file.map_or(0, |f| contact_probe(&g.gs, f));
    let hist = g.gs.unwrap_play_phase().hash_history().len();
    let d0 = query_all(&g.gs);
    let c = g.gs.clone();
    let d1 = query_all(&c);
    if d0 != d1 {
        return Err("clone answers differently".into());
    }
    // a search frontier: every state reachable within the current turn (up to 600), all held at
    // once, so that the newest history links have hundreds of owners; then an Option, a Vec of
    // clones and a boxed state, released in bulk
    let mut frontier: Vec<GameState> = vec![g.gs.clone()];
    let mut i = 0;
    while i < frontier.len() && frontier.len() < 600 {
        let st = frontier[i].clone();
        i += 1;
        if st.is_p1_turn_to_move() != g.gs.is_p1_turn_to_move() || st.is_terminal().is_some() {
            continue;
        }
        for a in st.valid_actions() {
            if frontier.len() >= 600 {
                break;
            }
            frontier.push(st.take_action(&a));
        }
    }
    let fr_digest = frontier.iter().fold(0u64, |acc, s| acc.rotate_left(1) ^ s.transposition_hash() ^ s.unwrap_play_phase().hash_history().len() as u64);
    let many: Vec<GameState> = (0..200).map(|_| g.gs.clone()).collect();
    let boxed: Box<Option<GameState>> = Box::new(Some(g.gs.clone()));
    let _ = query_all(&frontier[frontier.len() - 1]);
    if seed % 2 == 0 {
        drop(frontier);
        drop(many);
        drop(boxed);
    } else {
        drop(boxed);
        drop(many);
        drop(frontier);
    }
    let _ = fr_digest;
    // release order chosen by the seed: clone first or original first, older branch before or after
    let order = seed % 4;
    let LongGame { gs, .. } = g;
    match order {
        0 => {
            drop(c);
            drop(gs);
            drop(mid);
        }
        1 => {
            drop(gs);
            drop(c);
            drop(mid);
        }
        2 => {
            drop(mid);
            drop(c);
            drop(gs);
        }
        _ => {
            drop(gs);
            drop(mid);
            drop(c);
        }
    }
    Ok(format!("turns={} history_len={} digest={:016x} extra_turns_to_contact={} mid_turn_states_with_a_push_pending_queried={}", n, hist, d0, extra, pending_push_states))
}

pub fn cmd_child(n: u64, stack: usize, seed: u64) -> i32 {
    let h = std::thread::Builder::new().stack_size(stack).spawn(move || child_body(n, seed)).expect("spawn");
    match h.join() {
        Ok(Ok(s)) => {
            println!("STACK-CHILD-OK {}", s);
            0
        }
        Ok(Err(e)) => {
            println!("STACK-CHILD-GENERATOR-PROBLEM {}", e);
            3
        }
        Err(_) => {
            println!("STACK-CHILD-PANIC");
            4
        }
    }
}

#[derive(Debug)]
enum ChildResult {
    Ok(String),
    /// killed at the wall-clock cap: decides nothing about the stack
    Slow,
    Crashed(String),
    /// the child's bounded-stack thread panicked (an engine panic in a long game: C19's finding,
    /// it decides nothing about the stack)
    Panicked(String),
    Other(String),
}

fn run_child(n: u64, stack: usize, seed: u64) -> ChildResult {
    let exe = match std::env::current_exe() {
        Ok(e) => e,
        Err(e) => return ChildResult::Other(e.to_string()),
    };
    // a wall-clock cap: `timeout` kills a child that a changed engine made too slow (exit 124)
    let out = match std::process::Command::new("timeout").arg("300").arg(exe).args(["stack", "child", &n.to_string(), &stack.to_string(), &seed.to_string()]).output() {
        Ok(o) => o,
        Err(e) => return ChildResult::Other(e.to_string()),
    };
    if out.status.code() == Some(124) {
        return ChildResult::Slow;
    }
    let stdout = String::from_utf8_lossy(&out.stdout).to_string();
    let stderr = String::from_utf8_lossy(&out.stderr).to_string();
    use std::os::unix::process::ExitStatusExt;
    if let Some(sig) = out.status.signal() {
        let last = stderr.lines().last().unwrap_or("").to_string();
        return ChildResult::Crashed(format!("child killed by signal {} ({})", sig, last));
    }
    match out.status.code() {
        Some(0) if stdout.contains("STACK-CHILD-OK") => ChildResult::Ok(stdout.trim().to_string()),
        Some(4) => {
            let lines: Vec<&str> = stderr.lines().collect();
            let at = lines.iter().position(|l| l.contains("panicked at"));
            let msg = match at {
                Some(i) => format!("{} {}", lines[i].trim(), lines.get(i + 1).map_or("", |l| l.trim())),
                None => stderr.lines().last().unwrap_or("").to_string(),
            };
            ChildResult::Panicked(format!("child thread panicked: {}", msg))
        }
        c => ChildResult::Other(format!("exit {:?}: {} {}", c, stdout.trim(), stderr.lines().last().unwrap_or(""))),
    }
}

pub fn replay(f: &ReplayFile) -> Result<Option<(String, String)>, String> {
    let n = f.v["turns"].as_u64().ok_or("no turns")?;
    let stack = f.v["stack_bytes"].as_u64().ok_or("no stack_bytes")? as usize;
    let seed = f.v["child_seed"].as_u64().unwrap_or(1);
    match run_child(n, stack, seed) {
        ChildResult::Ok(_) | ChildResult::Slow => Ok(None),
        ChildResult::Crashed(d) => Ok(Some(("stack.child_exit_status".to_string(), d))),
        ChildResult::Panicked(d) => Ok(Some(("long_game.no_panic".to_string(), d))),
        ChildResult::Other(e) => Err(e),
    }
}

fn cmd_children(prop: &str, tier: &str, seed: u64, out: &str, replay_dir: &str) -> i32 {
    let t0 = Instant::now();
    let thorough = tier == "thorough";
    let c19 = prop == "C19";
    let mut rng = Rng::new(seed ^ 0xC20);
    // fixed corner cases first, then randomised (N, S)
    let mut plan: Vec<(u64, usize)> = vec![(100, 256 << 10), (3_000, 256 << 10), (30_000, 256 << 10), (100_000, 2 << 20), (200_000, 2 << 20), (300_000, 1 << 20)];
    if thorough {
        plan.push((1_000_000, 256 << 10));
        plan.push((1_000_000, 2 << 20));
        plan.push((600_000, 8 << 20));
    }
    // the unoptimised build (recursion that an optimiser turns into a loop is still recursion
    // for everybody who builds without optimisation): few and shorter games, it is slow
    let unopt = std::env::var("VERIF_BUILD").as_deref() == Ok("slow");
    if unopt {
        plan = vec![(100, 256 << 10), (3_000, 256 << 10), (20_000, 256 << 10), (40_000, 1 << 20)];
        if thorough {
            plan.push((100_000, 1 << 20));
        }
    }
    if c19 {
        // C19's long games: the question is a panic, not the stack; lengths just past every
        // narrow counter width (2^8, 2^16) and a few in between, on roomy stacks
        plan = vec![(60, 8 << 20), (300, 8 << 20), (1_000, 8 << 20), (5_000, 8 << 20), (20_000, 8 << 20), (70_000, 8 << 20)];
        if thorough {
            plan.push((300_000, 8 << 20));
            plan.push((1_000_000, 8 << 20));
        }
        if unopt {
            plan = vec![(60, 8 << 20), (300, 8 << 20), (3_000, 8 << 20), (if thorough { 70_000 } else { 20_000 }, 8 << 20)];
        }
    }
    let extra = if unopt || c19 { 0 } else if thorough { 40 } else { 7 };
    for _ in 0..extra {
        let n = match rng.below(5) {
            0 => 100 + rng.below(900) as u64,
            1 => 1_000 + rng.below(9_000) as u64,
            2 => 10_000 + rng.below(90_000) as u64,
            3 => 100_000 + rng.below(if thorough { 400_000 } else { 100_000 }) as u64,
            _ => 20_000 + rng.below(60_000) as u64,
        };
        let s = *rng.pick(&[256usize << 10, 1 << 20, 2 << 20, 2 << 20, 8 << 20]);
        plan.push((n, s));
    }
    let results: Vec<(u64, usize, u64, ChildResult)> = std::thread::scope(|sc| {
        let hs: Vec<_> = plan.iter().enumerate().map(|(i, (n, s))| {
            let cs = seed.wrapping_mul(31).wrapping_add(i as u64);
            let (n, s) = (*n, *s);
            sc.spawn(move || (n, s, cs, run_child(n, s, cs)))
        }).collect();
        hs.into_iter().map(|h| h.join().unwrap()).collect()
    });
    let mut exit = 0;
    let mut samples = vec![];
    let mut total_turns = 0u64;
    let mut distinct = std::collections::BTreeSet::new();
    for (n, s, cs, r) in &results {
        samples.push(json!({"turns": n, "stack_bytes": s, "child_seed": cs, "result": format!("{:?}", r)}));
        match r {
            ChildResult::Ok(_) => {
                total_turns += n;
                if *n >= 1000 {
                    distinct.insert((*n, *s));
                }
            }
            ChildResult::Slow => {}
            ChildResult::Other(e) => {
                eprintln!("HARNESS-ERROR: stack child (turns {}, stack {}): {}", n, s, e);
                return 2;
            }
            ChildResult::Panicked(d) if !c19 => {
                eprintln!("note: the engine panicked in a long game ({} turns: {}); that is C19's finding, it decides nothing about the stack", n, d);
            }
            ChildResult::Crashed(d) if c19 => {
                eprintln!("note: a long-game child was killed ({} turns: {}); that is C20's finding, not C19's", n, d);
            }
            ChildResult::Panicked(d) => {
                if exit == 0 {
                    let worst = results.iter().filter(|x| matches!(x.3, ChildResult::Panicked(_))).min_by_key(|x| x.0).unwrap();
                    let d = match &worst.3 { ChildResult::Panicked(x) => x.clone(), _ => d.clone() };
                    let path = format!("{}/C19-{}-long{}.json", replay_dir, seed, worst.0);
                    let v = json!({"mode": "stack", "build": if unopt { "slow" } else { "plain" }, "property": "C19", "monitor": "long_game.no_panic", "detail": d, "turns": worst.0, "stack_bytes": worst.1, "child_seed": worst.2, "seed": seed, "repo_src_hash": repo_hash(), "how_to_replay": "cd /verif && ./run replay <this file>"});
                    if (ReplayFile { v }).write(&path).is_err() {
                        return 2;
                    }
                    println!("violation: property C19: a child that played {} capture-free turns (querying everything public at 40 points and at the end) panicked: {}", worst.0, d);
                    println!("VIOLATION property=C19 replay={}", path);
                    exit = 1;
                }
            }
            ChildResult::Crashed(d) => {
                if exit == 0 {
                    // report the smallest crashing history
                    let worst = results.iter().filter(|x| matches!(x.3, ChildResult::Crashed(_))).min_by_key(|x| x.0).unwrap();
                    let path = format!("{}/C20-{}-{}.json", replay_dir, seed, worst.0);
                    let v = json!({"mode": "stack", "build": if unopt { "slow" } else { "plain" }, "property": "C20", "monitor": "stack.child_exit_status", "detail": d, "turns": worst.0, "stack_bytes": worst.1, "child_seed": worst.2, "seed": seed, "repo_src_hash": repo_hash(), "how_to_replay": "cd /verif && ./run replay <this file>"});
                    if (ReplayFile { v }).write(&path).is_err() {
                        return 2;
                    }
                    println!("violation: property C20: a child that played {} capture-free turns and then cloned, queried and dropped the state on a {}-byte stack died: {}", worst.0, worst.1, d);
                    println!("VIOLATION property=C20 replay={}", path);
                    exit = 1;
                }
            }
        }
    }
    let wall = t0.elapsed().as_secs_f64();
    let part = json!({
        "part": match (c19, unopt) { (true, true) => "long_game_children_no_panic_unoptimised_build", (true, false) => "long_game_children_no_panic", (false, true) => "bounded_stack_children_unoptimised_build", (false, false) => "bounded_stack_children" },
        "evaluations": results.len(),
        "distinct_nontrivial": distinct.len(),
        "rule": "each case = one child process that plays N legal capture-free turns (generated by the reference model, cross-checked against valid_actions() at 40 points), then on a thread with stack S: queries everything public (both lists, result, can_pass, has_move, hash, Display, ==, Hash, boards of steps, capture preview, the history list's iter/len/head/tail/append), plays on until the armies can touch within one turn and queries every mid-turn state on the contact file (states with a push pending at the last step among them), holds a search frontier of up to 600 states of the current turn plus 200 clones plus a boxed Option, releases them in bulk, and drops the state, an older branch and a clone in a seed-chosen order; non-trivial = distinct (N >= 1000, S) pairs that completed",
        "samples": samples,
        "faults_injected_and_effective": {"fault.bounded_stack": results.len(), "fault.release_order_variants": 4},
        "simulated_turns": total_turns,
        "wall_s": wall,
        "violations": exit,
        "real_vs_stub": {"real": "GameState, history list, clone/drop/queries (shipped configuration)", "stub": "players (model-generated legal moves)"}
    });
    if std::fs::write(out, serde_json::to_string_pretty(&part).unwrap()).is_err() {
        return 2;
    }
    println!("{} child part{}: {} children, {} turns in total, {:.1}s", prop, if unopt { " (unoptimised build)" } else { "" }, results.len(), total_turns, wall);
    exit
}

/// drop-depth probe; needs the hooked build (the seam counts nested drops of list links)
fn cmd_probe(tier: &str, seed: u64, out: &str, replay_dir: &str) -> i32 {
    if !cfg!(arimaa_engine_step_verif) {
        eprintln!("HARNESS-ERROR: the probe needs the hooked build");
        return 2;
    }
    let t0 = Instant::now();
    let sizes: &[u64] = if tier == "thorough" { &[10, 100, 1_000, 10_000, 100_000, 300_000] } else { &[10, 100, 1_000, 10_000, 50_000] };
    let mut rows: Vec<Value> = vec![];
    let mut worst = 0usize;
    let mut worst_n = 0u64;
    for (i, n) in sizes.iter().enumerate() {
        // a deep recursion must not kill the probe itself: run on a big stack
        let n = *n;
        let h = std::thread::Builder::new().stack_size(1 << 30).spawn(move || -> Result<(usize, usize, usize, usize), String> {
            let mut g = LongGame::new(seed.wrapping_add(i as u64))?;
            let mut mid = None;
            for t in 0..n {
                g.turn(false)?;
                if t == n / 2 {
                    mid = Some(g.gs.clone());
                }
            }
            verif_seam::take_max_drop_depth();
            let c = g.gs.clone();
            let _ = query_all(&c);
            let d_query = verif_seam::take_max_drop_depth();
            drop(c);
            let d_clone = verif_seam::take_max_drop_depth();
            let LongGame { gs, .. } = g;
            drop(gs);
            let d_state = verif_seam::take_max_drop_depth();
            drop(mid);
            let d_branch = verif_seam::take_max_drop_depth();
            Ok((d_query, d_clone, d_state, d_branch))
        }).expect("spawn");
        match h.join() {
            Ok(Ok((dq, dc, ds, db))) => {
                let m = dq.max(dc).max(ds).max(db);
                if m > worst {
                    worst = m;
                    worst_n = n;
                }
                rows.push(json!({"turns": n, "max_nested_link_drops": {"while_querying": dq, "dropping_clone": dc, "dropping_state": ds, "dropping_older_branch": db}}));
            }
            Ok(Err(e)) => {
                eprintln!("HARNESS-ERROR: probe generator: {}", e);
                return 2;
            }
            Err(_) => {
                eprintln!("note: the engine panicked in the drop-depth probe at {} turns; that is C19's finding, it decides nothing about the stack", n);
                break;
            }
        }
    }
    // growth criterion: an implementation may nest a bounded number of link drops (e.g. a
    // recursive fast path for short lists); it must not nest more as the history grows
    let bound = crate::stack::DROP_DEPTH_BOUND;
    let mut exit = 0;
    if worst > bound {
        let path = format!("{}/C20-{}-probe.json", replay_dir, seed);
        let detail = format!("dropping a state with a history of {} turns nests {} link drops (bound {}, must not grow with the history)", worst_n, worst, bound);
        let v = json!({"mode": "probe", "property": "C20", "monitor": "stack.drop_depth", "detail": detail, "turns": worst_n, "seed": seed, "rows": rows, "repo_src_hash": repo_hash(), "how_to_replay": "cd /verif && ./run C20 quick"});
        if (ReplayFile { v }).write(&path).is_err() {
            return 2;
        }
        println!("violation: property C20: {}", detail);
        println!("VIOLATION property=C20 replay={}", path);
        exit = 1;
    }
    let part = json!({
        "part": "drop_depth_probe",
        "evaluations": rows.len() * 4,
        "distinct_nontrivial": rows.len(),
        "rule": "for each history length N the seam counts the deepest nesting of list-link drops while querying a clone, dropping the clone, dropping the state and dropping an older branch; it must stay <= 2000 however large N is (N up to 50k quick / 300k thorough); non-trivial = distinct N",
        "samples": rows,
        "bound": bound,
        "worst_observed": worst,
        "wall_s": t0.elapsed().as_secs_f64(),
        "violations": exit,
        "real_vs_stub": {"real": "engine built with the guard: the list links through the seam's wrapper around std::sync::Arc", "stub": "players"}
    });
    if std::fs::write(out, serde_json::to_string_pretty(&part).unwrap()).is_err() {
        return 2;
    }
    println!("C20 probe part: deepest nesting {} over history lengths {:?}", worst, sizes);
    exit
}

pub fn cmd(args: &[String], tier: &str, seed: u64, out: &str, replay_dir: &str) -> i32 {
    match args.first().map(|s| s.as_str()) {
        Some("child") => {
            let n: u64 = args.get(1).and_then(|x| x.parse().ok()).unwrap_or(100);
            let s: usize = args.get(2).and_then(|x| x.parse().ok()).unwrap_or(2 << 20);
            let cs: u64 = args.get(3).and_then(|x| x.parse().ok()).unwrap_or(1);
            cmd_child(n, s, cs)
        }
        Some("children") => cmd_children(args.get(1).map(|s| s.as_str()).unwrap_or("C20"), tier, seed, out, replay_dir),
        Some("longrep") => cmd_longrep(args.get(1).map(|s| s.as_str()).unwrap_or("C05"), tier, seed, out, replay_dir),
        Some("longgame") => cmd_longgame(tier, seed, out, replay_dir, args.get(1).and_then(|x| x.parse().ok())),
        Some("probe") => cmd_probe(tier, seed, out, replay_dir),
        _ => {
            eprintln!("usage: arena stack child <turns> <stack bytes> <seed> | children | probe");
            2
        }
    }
}
