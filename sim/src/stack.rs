use crate::report::ReplayFile;
pub fn replay(_f: &ReplayFile) -> Result<Option<(String, String)>, String> { Err("todo".into()) }
pub fn cmd(_args: &[String], _tier: &str, _seed: u64, _out: &str, _rd: &str) -> i32 { 2 }
