//! Independent reference model of Arimaa, written from the rule text.  Mailbox board indexed
//! (rank-1)*8+file (a1 = 0), squares as (file, rank) with explicit edge tests.  Shares no code,
//! layout or indexing with the engine.  All functions are total (they return Err/None instead of
//! panicking) because a changed engine may hand them actions the model considers impossible.
use std::collections::BTreeMap;

#[derive(Clone, Copy, PartialEq, Eq, Debug, PartialOrd, Ord, Hash)]
pub enum Side {
    Gold,
    Silver,
}
impl Side {
    pub fn other(self) -> Side {
        if self == Side::Gold {
            Side::Silver
        } else {
            Side::Gold
        }
    }
    pub fn letter(self) -> char {
        if self == Side::Gold {
            'g'
        } else {
            's'
        }
    }
}

#[derive(Clone, Copy, PartialEq, Eq, Debug, PartialOrd, Ord, Hash)]
pub enum Kind {
    R = 0,
    C = 1,
    D = 2,
    H = 3,
    M = 4,
    E = 5,
}
pub const KINDS: [Kind; 6] = [Kind::R, Kind::C, Kind::D, Kind::H, Kind::M, Kind::E];
impl Kind {
    pub fn letter(self) -> char {
        ['r', 'c', 'd', 'h', 'm', 'e'][self as usize]
    }
    pub fn quota(self) -> usize {
        [8, 2, 2, 2, 1, 1][self as usize]
    }
    pub fn from_letter(c: char) -> Option<Kind> {
        KINDS.iter().copied().find(|k| k.letter() == c.to_ascii_lowercase())
    }
}

#[derive(Clone, Copy, PartialEq, Eq, Debug, PartialOrd, Ord, Hash)]
pub enum Dir {
    N,
    E,
    S,
    W,
}
pub const DIRS: [Dir; 4] = [Dir::N, Dir::E, Dir::S, Dir::W];
impl Dir {
    pub fn letter(self) -> char {
        match self {
            Dir::N => 'n',
            Dir::E => 'e',
            Dir::S => 's',
            Dir::W => 'w',
        }
    }
    pub fn from_letter(c: char) -> Option<Dir> {
        DIRS.iter().copied().find(|d| d.letter() == c)
    }
}

/// square = file (0..8 = a..h) and rank (1..=8); index = (rank-1)*8 + file  (a1 = 0, h8 = 63)
#[derive(Clone, Copy, PartialEq, Eq, Debug, PartialOrd, Ord, Hash)]
pub struct Sq(pub u8);
impl Sq {
    pub fn new(file: u8, rank: u8) -> Sq {
        assert!(file < 8 && (1..=8).contains(&rank));
        Sq((rank - 1) * 8 + file)
    }
    pub fn file(self) -> u8 {
        self.0 % 8
    }
    pub fn rank(self) -> u8 {
        self.0 / 8 + 1
    }
    pub fn name(self) -> String {
        format!("{}{}", (b'a' + self.file()) as char, self.rank())
    }
    pub fn from_name(s: &str) -> Option<Sq> {
        let b = s.as_bytes();
        if b.len() != 2 || !(b'a'..=b'h').contains(&b[0]) || !(b'1'..=b'8').contains(&b[1]) {
            return None;
        }
        Some(Sq::new(b[0] - b'a', b[1] - b'0'))
    }
    pub fn step(self, d: Dir) -> Option<Sq> {
        let (f, r) = (self.file() as i8, self.rank() as i8);
        let (f2, r2) = match d {
            Dir::N => (f, r + 1),
            Dir::S => (f, r - 1),
            Dir::E => (f + 1, r),
            Dir::W => (f - 1, r),
        };
        if (0..8).contains(&f2) && (1..=8).contains(&r2) {
            Some(Sq::new(f2 as u8, r2 as u8))
        } else {
            None
        }
    }
    pub fn neighbours(self) -> impl Iterator<Item = Sq> {
        DIRS.iter().filter_map(move |d| self.step(*d))
    }
    pub fn is_trap(self) -> bool {
        matches!((self.file(), self.rank()), (2, 3) | (5, 3) | (2, 6) | (5, 6))
    }
}
pub const TRAPS: [(u8, u8); 4] = [(2, 3), (5, 3), (2, 6), (5, 6)];

pub type Cell = Option<(Side, Kind)>;
pub type Board = [Cell; 64];
pub const EMPTY: Board = [None; 64];

pub fn board_key(b: &Board) -> [u8; 64] {
    let mut k = [0u8; 64];
    for (i, c) in b.iter().enumerate() {
        k[i] = match c {
            None => 0,
            Some((s, kd)) => 1 + (*kd as u8) + if *s == Side::Silver { 6 } else { 0 },
        };
    }
    k
}
pub fn count(b: &Board, side: Side, kind: Kind) -> usize {
    b.iter().filter(|c| **c == Some((side, kind))).count()
}
pub fn pieces(b: &Board) -> usize {
    b.iter().filter(|c| c.is_some()).count()
}

#[derive(Clone, Copy, PartialEq, Eq, Debug, PartialOrd, Ord, Hash)]
pub enum Act {
    Place(Kind),
    Step(Sq, Dir),
    Pass,
}
impl Act {
    pub fn text(self) -> String {
        match self {
            Act::Place(k) => k.letter().to_string(),
            Act::Pass => "p".into(),
            Act::Step(s, d) => format!("{}{}", s.name(), d.letter()),
        }
    }
    /// strict parser of the model's own notation (lower case only)
    pub fn parse(s: &str) -> Option<Act> {
        if s == "p" {
            return Some(Act::Pass);
        }
        let cs: Vec<char> = s.chars().collect();
        if cs.len() == 1 && cs[0].is_ascii_lowercase() {
            return Kind::from_letter(cs[0]).map(Act::Place);
        }
        if cs.len() == 3 && s.is_ascii() {
            let sq = Sq::from_name(&s[..2])?;
            let d = Dir::from_letter(cs[2])?;
            return Some(Act::Step(sq, d));
        }
        None
    }
}

#[derive(Clone, Copy, PartialEq, Eq, Debug, PartialOrd, Ord, Hash)]
pub enum Pending {
    None,
    Pull(Sq, Kind),
    Push(Sq, Kind),
}

#[derive(Clone, Copy, PartialEq, Eq, Debug)]
pub enum Outcome {
    GoldWin,
    SilverWin,
}
pub fn win(s: Side) -> Outcome {
    if s == Side::Gold {
        Outcome::GoldWin
    } else {
        Outcome::SilverWin
    }
}

pub type Capture = (Sq, Side, Kind);

#[derive(Clone, Debug)]
pub struct Model {
    pub board: Board,
    pub side: Side,
    pub move_no: u128,
    pub setup: bool,
    /// board before each step made this turn (index 0 = board at the start of the turn)
    pub boards_this_turn: Vec<Board>,
    pub pending: Pending,
}

pub fn diagram(board: &Board, side: Side, move_no: u128) -> String {
    let mut s = format!("{}{}\n +-----------------+\n", move_no, side.letter());
    for rank in (1..=8).rev() {
        s += &format!("{}|", rank);
        for file in 0..8 {
            let sq = Sq::new(file, rank);
            let c = match board[sq.0 as usize] {
                Some((Side::Gold, k)) => k.letter().to_ascii_uppercase(),
                Some((Side::Silver, k)) => k.letter(),
                None => {
                    if sq.is_trap() {
                        'x'
                    } else {
                        ' '
                    }
                }
            };
            s.push(' ');
            s.push(c);
        }
        s += " |\n";
    }
    s += " +-----------------+\n   a b c d e f g h\n";
    s
}

/// The same position in another accepted spelling, as other tools write it: the engine's reader
/// takes every character that is not a piece letter as an empty square and knows `w`/`b` as well as
/// `g`/`s` for the side.  The spelling is a pure function of the text (no random draw), so a replay
/// file that holds the canonical text reproduces it.  Half of all texts stay as they are.
pub fn respell(text: &str) -> String {
    let mut f = crate::rng::Fp::new();
    f.str(text);
    let mut h = f.finish();
    let variant = h % 4;
    if variant < 2 {
        return text.to_string();
    }
    h /= 4;
    let alias = variant == 2 || h & 1 == 1;
    h /= 2;
    const FILL: [char; 10] = [' ', '.', 'x', 'X', '-', '~', 'A', 'Z', '0', 'Q'];
    let mut out = String::new();
    for (li, line) in text.lines().enumerate() {
        let cs: Vec<char> = line.chars().collect();
        if li == 0 {
            let mut l: String = line.to_string();
            if alias {
                if l.ends_with('g') { l.pop(); l.push('w'); } else if l.ends_with('s') { l.pop(); l.push('b'); }
            }
            out += &l;
        } else if let Some(bar) = cs.iter().position(|c| *c == '|') {
            let mut cs = cs.clone();
            let rank = cs.first().and_then(|c| c.to_digit(10)).unwrap_or(0) as u8;
            for file in 0..8usize {
                let i = bar + 2 + 2 * file;
                if i < cs.len() && (cs[i] == ' ' || cs[i] == 'x') {
                    let trap = cs[i] == 'x' && (rank == 3 || rank == 6) && (file == 2 || file == 5);
                    cs[i] = if variant == 2 {
                        if trap { 'X' } else { '.' }
                    } else {
                        h = h.wrapping_mul(6364136223846793005).wrapping_add(1442695040888963407);
                        FILL[((h >> 33) % FILL.len() as u64) as usize]
                    };
                }
            }
            out += &cs.into_iter().collect::<String>();
        } else {
            out += line;
        }
        out.push('\n');
    }
    out
}

/// Strict parser of exactly the format `diagram` writes (used for scenario and replay files).
pub fn parse_diagram(text: &str) -> Option<(Board, Side, u128)> {
    let lines: Vec<&str> = text.lines().collect();
    if lines.len() < 11 {
        return None;
    }
    let head = lines[0].trim();
    if head.len() < 2 {
        return None;
    }
    let (num, letter) = head.split_at(head.len() - 1);
    let move_no: u128 = num.parse().ok()?;
    let side = match letter {
        "g" | "w" => Side::Gold,
        "s" | "b" => Side::Silver,
        _ => return None,
    };
    let mut board = EMPTY;
    for (li, rank) in (1..=8u8).rev().enumerate() {
        let l: Vec<char> = lines[2 + li].chars().collect();
        if l.len() < 19 || l[0] != (b'0' + rank) as char || l[1] != '|' {
            return None;
        }
        for file in 0..8u8 {
            let c = l[3 + 2 * file as usize];
            if c == ' ' || c == 'x' {
                continue;
            }
            let k = Kind::from_letter(c)?;
            let s = if c.is_ascii_uppercase() { Side::Gold } else { Side::Silver };
            board[Sq::new(file, rank).0 as usize] = Some((s, k));
        }
    }
    Some((board, side, move_no))
}

pub fn has_friend(b: &Board, sq: Sq, side: Side) -> bool {
    sq.neighbours().any(|n| matches!(b[n.0 as usize], Some((s, _)) if s == side))
}
pub fn frozen(b: &Board, sq: Sq) -> bool {
    let (side, kind) = match b[sq.0 as usize] {
        Some(x) => x,
        None => return false,
    };
    if has_friend(b, sq, side) {
        return false;
    }
    sq.neighbours().any(|n| matches!(b[n.0 as usize], Some((s, k)) if s != side && k > kind))
}
/// pieces on trap squares without an adjacent friendly piece
pub fn unsupported_on_traps(b: &Board) -> Vec<Capture> {
    let mut caps = vec![];
    for (f, r) in TRAPS {
        let s = Sq::new(f, r);
        if let Some((side, kind)) = b[s.0 as usize] {
            if !has_friend(b, s, side) {
                caps.push((s, side, kind));
            }
        }
    }
    caps
}

pub fn setup_order(side: Side) -> Vec<Sq> {
    if side == Side::Gold {
        (0..8).map(|f| Sq::new(f, 2)).chain((0..8).map(|f| Sq::new(f, 1))).collect()
    } else {
        (0..8).map(|f| Sq::new(f, 8)).chain((0..8).map(|f| Sq::new(f, 7))).collect()
    }
}

impl Model {
    pub fn initial() -> Model {
        Model { board: EMPTY, side: Side::Gold, move_no: 1, setup: true, boards_this_turn: vec![], pending: Pending::None }
    }
    pub fn from_position(board: Board, side: Side, move_no: u128) -> Model {
        Model { board, side, move_no, setup: false, boards_this_turn: vec![], pending: Pending::None }
    }
    pub fn steps_made(&self) -> usize {
        self.boards_this_turn.len()
    }
    pub fn turn_start_board(&self) -> &Board {
        self.boards_this_turn.first().unwrap_or(&self.board)
    }
    pub fn diagram(&self) -> String {
        diagram(&self.board, self.side, self.move_no)
    }

    pub fn next_setup_square(&self) -> Option<Sq> {
        setup_order(self.side).into_iter().find(|s| self.board[s.0 as usize].is_none())
    }

    /// the steps that complete a pending push into `vac` of a piece of type `victim`
    pub fn push_completions(&self, vac: Sq, victim: Kind) -> Vec<Act> {
        let mut out = vec![];
        for d in DIRS {
            for q in vac.neighbours() {
                if q.step(d) == Some(vac) {
                    if let Some((s, k)) = self.board[q.0 as usize] {
                        if s == self.side && k > victim && !frozen(&self.board, q) {
                            out.push(Act::Step(q, d));
                        }
                    }
                }
            }
        }
        out
    }

    /// rule-only legal actions (no repetition rules)
    pub fn legal(&self) -> Vec<Act> {
        let mut out = vec![];
        if self.setup {
            for k in KINDS {
                if count(&self.board, self.side, k) < k.quota() {
                    out.push(Act::Place(k));
                }
            }
            return out;
        }
        let me = self.side;
        if let Pending::Push(vac, victim) = self.pending {
            return self.push_completions(vac, victim);
        }
        if self.steps_made() >= 4 {
            return out;
        }
        for i in 0..64u8 {
            let q = Sq(i);
            if let Some((s, k)) = self.board[i as usize] {
                for d in DIRS {
                    let t = match q.step(d) {
                        Some(t) => t,
                        None => continue,
                    };
                    if self.board[t.0 as usize].is_some() {
                        continue;
                    }
                    if s == me {
                        if frozen(&self.board, q) {
                            continue;
                        }
                        if k == Kind::R && ((me == Side::Gold && d == Dir::S) || (me == Side::Silver && d == Dir::N)) {
                            continue;
                        }
                        out.push(Act::Step(q, d));
                    } else {
                        // enemy piece: completes a pull?
                        let mut ok = false;
                        if let Pending::Pull(vac, puller) = self.pending {
                            if t == vac && k < puller {
                                ok = true;
                            }
                        }
                        // starts a push?  needs a following step inside the turn
                        if !ok && self.steps_made() <= 2 {
                            ok = q.neighbours().any(|n| {
                                matches!(self.board[n.0 as usize], Some((s2, k2)) if s2 == me && k2 > k && !frozen(&self.board, n))
                            });
                        }
                        if ok {
                            out.push(Act::Step(q, d));
                        }
                    }
                }
            }
        }
        if self.steps_made() >= 1 {
            out.push(Act::Pass);
        }
        out
    }

    /// board after moving the piece on q one square in direction d, with captures
    pub fn board_after(&self, q: Sq, d: Dir) -> Result<(Board, Vec<Capture>), String> {
        let mut b = self.board;
        let t = q.step(d).ok_or_else(|| format!("{}{} leaves the board", q.name(), d.letter()))?;
        if b[q.0 as usize].is_none() {
            return Err(format!("no piece on {}", q.name()));
        }
        if b[t.0 as usize].is_some() {
            return Err(format!("target {} occupied", t.name()));
        }
        b[t.0 as usize] = b[q.0 as usize].take();
        let caps = unsupported_on_traps(&b);
        for (s, _, _) in &caps {
            b[s.0 as usize] = None;
        }
        Ok((b, caps))
    }

    pub fn ends_turn(&self, a: Act) -> bool {
        match a {
            Act::Pass => true,
            Act::Step(..) => !self.setup && self.steps_made() == 3,
            Act::Place(_) => false,
        }
    }

    fn end_turn(&mut self) {
        if self.side == Side::Silver {
            self.move_no += 1;
        }
        self.side = self.side.other();
        self.boards_this_turn.clear();
        self.pending = Pending::None;
    }

    /// applies an action; Err if the model considers it impossible (not merely illegal)
    pub fn apply(&mut self, a: Act) -> Result<Vec<Capture>, String> {
        match a {
            Act::Place(k) => {
                if !self.setup {
                    return Err("placement outside setup".into());
                }
                let sq = self.next_setup_square().ok_or("no setup square left")?;
                self.board[sq.0 as usize] = Some((self.side, k));
                if self.next_setup_square().is_none() {
                    if self.side == Side::Gold {
                        self.side = Side::Silver;
                    } else {
                        self.side = Side::Gold;
                        self.setup = false;
                        self.move_no = 2;
                    }
                }
                Ok(vec![])
            }
            Act::Pass => {
                if self.setup {
                    return Err("pass during setup".into());
                }
                self.end_turn();
                Ok(vec![])
            }
            Act::Step(q, d) => {
                if self.setup {
                    return Err("step during setup".into());
                }
                let (owner, kind) = self.board[q.0 as usize].ok_or_else(|| format!("no piece on {}", q.name()))?;
                let t = q.step(d).ok_or("step leaves the board")?;
                let (nb, caps) = self.board_after(q, d)?;
                let new_pending = if owner != self.side {
                    match self.pending {
                        Pending::Pull(vac, puller) if t == vac && kind < puller => Pending::None,
                        _ => Pending::Push(q, kind),
                    }
                } else {
                    match self.pending {
                        Pending::Push(..) => Pending::None,
                        _ => {
                            if kind != Kind::R {
                                Pending::Pull(q, kind)
                            } else {
                                Pending::None
                            }
                        }
                    }
                };
                self.boards_this_turn.push(self.board);
                self.board = nb;
                self.pending = new_pending;
                if self.boards_this_turn.len() >= 4 {
                    self.end_turn();
                }
                Ok(caps)
            }
        }
    }
}

/// Exact record of what happened, taken from observed boards only (no hashes, no model logic):
/// the (board, side) at every start of turn of this lineage since play began or since the
/// position was parsed, and the observed board after each step of the current turn.
#[derive(Clone, Debug, Default)]
pub struct Recorder {
    pub lineage: Vec<([u8; 64], Side)>,
    counts: BTreeMap<([u8; 64], Side), u32>,
    pub turn_boards: Vec<Board>,
}
impl Recorder {
    pub fn new() -> Recorder {
        Recorder::default()
    }
    /// play begins (or a position was parsed) with this board and side at a start of turn
    pub fn begin(&mut self, board: &Board, side: Side) {
        self.lineage.clear();
        self.counts.clear();
        self.turn_boards.clear();
        self.turn_start(board, side);
    }
    pub fn turn_start(&mut self, board: &Board, side: Side) {
        let k = (board_key(board), side);
        self.lineage.push(k);
        *self.counts.entry(k).or_insert(0) += 1;
        self.turn_boards.clear();
        self.turn_boards.push(*board);
    }
    pub fn step_made(&mut self, board_after: &Board) {
        self.turn_boards.push(*board_after);
    }
    /// undo turn starts recorded after the lineage had `lineage_len` entries (fan-out children)
    pub fn rollback(&mut self, lineage_len: usize, turn_boards: Vec<Board>) {
        while self.lineage.len() > lineage_len {
            let k = self.lineage.pop().unwrap();
            let mut gone = false;
            if let Some(c) = self.counts.get_mut(&k) {
                *c -= 1;
                gone = *c == 0;
            }
            if gone {
                self.counts.remove(&k);
            }
        }
        self.turn_boards = turn_boards;
    }
    pub fn occurrences(&self, board: &Board, side: Side) -> u32 {
        self.counts.get(&(board_key(board), side)).copied().unwrap_or(0)
    }
    pub fn turn_start_board(&self) -> Option<&Board> {
        self.turn_boards.first()
    }
    /// would ending the turn on `board` (other side to move next) break a repetition rule?
    pub fn forbidden_end(&self, board: &Board, next_side: Side) -> (bool, bool) {
        let unchanged = self.turn_start_board().map_or(false, |s| s == board);
        let third = self.occurrences(board, next_side) >= 2;
        (unchanged, third)
    }
}

impl Model {
    /// would this turn-ending action be withheld by the repetition rules (exact boards)?
    pub fn withheld(&self, rec: &Recorder, a: Act) -> bool {
        if self.setup || !self.ends_turn(a) {
            return false;
        }
        let nb = match a {
            Act::Pass => self.board,
            Act::Step(q, d) => match self.board_after(q, d) {
                Ok((b, _)) => b,
                Err(_) => return false,
            },
            Act::Place(_) => return false,
        };
        if nb == *self.turn_start_board() {
            return true;
        }
        rec.occurrences(&nb, self.side.other()) >= 2
    }
    pub fn offered(&self, rec: &Recorder) -> Vec<Act> {
        self.legal().into_iter().filter(|a| !self.withheld(rec, *a)).collect()
    }
    /// result per the official order; None = not over
    pub fn result(&self, rec: &Recorder) -> Option<Outcome> {
        if self.setup {
            return None;
        }
        if self.steps_made() > 0 {
            return if self.offered(rec).is_empty() { Some(win(self.side.other())) } else { None };
        }
        let b = self.side;
        let a = b.other();
        let on_goal = |s: Side| {
            let r = if s == Side::Gold { 8 } else { 1 };
            (0..8).any(|f| self.board[Sq::new(f, r).0 as usize] == Some((s, Kind::R)))
        };
        if on_goal(a) {
            return Some(win(a));
        }
        if on_goal(b) {
            return Some(win(b));
        }
        if count(&self.board, b, Kind::R) == 0 {
            return Some(win(a));
        }
        if count(&self.board, a, Kind::R) == 0 {
            return Some(win(b));
        }
        if self.offered(rec).is_empty() {
            return Some(win(a));
        }
        None
    }
    /// which of the five turn-start conditions hold (for coverage probes)
    pub fn conditions(&self, rec: &Recorder) -> [bool; 5] {
        let b = self.side;
        let a = b.other();
        let on_goal = |s: Side| {
            let r = if s == Side::Gold { 8 } else { 1 };
            (0..8).any(|f| self.board[Sq::new(f, r).0 as usize] == Some((s, Kind::R)))
        };
        [
            on_goal(a),
            on_goal(b),
            count(&self.board, b, Kind::R) == 0,
            count(&self.board, a, Kind::R) == 0,
            self.offered(rec).is_empty(),
        ]
    }
}
