//! One simulated referee (the real engine) together with the reference model and the exact
//! recorder, and every monitor that compares them.  Monitors are tagged with the properties
//! they decide; a check for property X alarms only on X's monitors and resynchronises the model
//! when another property's monitor fires.
use crate::bridge::*;
use crate::ctx::*;
use crate::eng;
use crate::model::*;
use crate::rng::Fp;
use arimaa_engine_step::{Action, GameState, Piece, PieceBoard, PieceBoardState, Square, Zobrist};
use std::collections::BTreeMap;
use std::hash::{Hash, Hasher};

#[derive(Clone, Copy, PartialEq, Eq, Debug)]
pub enum Cause {
    /// the state was just parsed from a diagram (start of a run, or a restart)
    Parsed,
    /// GameState::initial()
    Initial,
    Place,
    Step,
    Pass,
    /// forked from an earlier snapshot (already checked when it was current)
    Fork,
}

#[derive(Clone)]
pub struct World {
    pub gs: GameState,
    pub m: Model,
    pub rec: Recorder,
    /// from-scratch hashes of the recorder's lineage entries (same indexing)
    pub lineage_hash: Vec<u64>,
    pub path_fp: u64,
    pub cause: Cause,
    /// an action has been applied on this lineage since it was parsed / created
    pub acted: bool,
}

pub struct StateInfo {
    pub offered: Vec<Action>,
    pub norep: Vec<Action>,
    pub finished: bool,
}

pub struct Checkpoint {
    gs: GameState,
    m: Model,
    lineage_len: usize,
    turn_boards: Vec<Board>,
    path_fp: u64,
    cause: Cause,
    acted: bool,
}

pub fn to_piece_board(b: &Board) -> PieceBoard {
    let mut p1 = 0u64;
    let mut t = [0u64; 6];
    for i in 0..64u8 {
        if let Some((s, k)) = b[i as usize] {
            let bit = 1u64 << sq_to_bit(Sq(i));
            t[k as usize] |= bit;
            if s == Side::Gold {
                p1 |= bit;
            }
        }
    }
    PieceBoard::new(p1, t[Kind::E as usize], t[Kind::M as usize], t[Kind::H as usize], t[Kind::D as usize], t[Kind::C as usize], t[Kind::R as usize])
}

fn scratch_turn_start_hash(b: &Board, side: Side) -> u64 {
    let pb = to_piece_board(b);
    eng!("Zobrist::from_piece_board", Zobrist::from_piece_board(pb.piece_board(), side == Side::Gold, 0)).board_state_hash()
}

pub fn state_fp(board: &Board, side: Side, step: usize, pending: Pending) -> u64 {
    let mut f = Fp::new();
    f.bytes(&board_key(board));
    f.u8(side as u8);
    f.u8(step as u8);
    match pending {
        Pending::None => f.u8(0),
        Pending::Pull(s, k) => {
            f.u8(1);
            f.u8(s.0);
            f.u8(k as u8)
        }
        Pending::Push(s, k) => {
            f.u8(2);
            f.u8(s.0);
            f.u8(k as u8)
        }
    }
    f.finish()
}

fn std_hash(gs: &GameState) -> u64 {
    #[allow(deprecated)]
    let mut h = std::hash::SipHasher::new();
    gs.hash(&mut h);
    h.finish()
}

/// per-run table for C08: (board, side, step) -> representative state and the path that reached it
#[derive(Default)]
pub struct EqTable {
    map: BTreeMap<([u8; 64], u8, u8), (GameState, u64, u64, Vec<Board>, Pending)>,
    twins: usize,
    retractions: usize,
    decoys: usize,
    hashes: BTreeMap<u64, u64>,
}
impl EqTable {
    pub fn clear(&mut self) {
        self.map.clear();
        self.twins = 0;
        self.retractions = 0;
        self.decoys = 0;
        self.hashes.clear();
    }
}

/// The structural half of C10 on a state by itself (no model): type boards disjoint, their union
/// is `all_pieces`, Gold's board inside it, accessors and square lookup agree with the fields, the
/// printed diagram shows the same position.  Returns the decoded board.
pub fn structural_views(gs: &GameState) -> Result<Board, String> {
    let pb: &PieceBoardState = eng!("piece_board", gs.piece_board());
    let types = [pb.rabbits, pb.cats, pb.dogs, pb.horses, pb.camels, pb.elephants];
    let mut union = 0u64;
    for t in types {
        if union & t != 0 {
            return Err(format!("type boards overlap: {:x?}", types));
        }
        union |= t;
    }
    if union != pb.all_pieces {
        return Err(format!("union of the type boards {:x}, all_pieces {:x}", union, pb.all_pieces));
    }
    if pb.p1_pieces & !pb.all_pieces != 0 {
        return Err(format!("Gold's board {:x} has squares outside all_pieces {:x}", pb.p1_pieces, pb.all_pieces));
    }
    if eng!("player_piece_mask", pb.player_piece_mask(true)) != pb.p1_pieces || eng!("player_piece_mask", pb.player_piece_mask(false)) != pb.all_pieces & !pb.p1_pieces {
        return Err("player_piece_mask disagrees with the fields".into());
    }
    for (pc, k) in PIECES {
        let t = types[k as usize];
        if eng!("bits_by_piece_type", pb.bits_by_piece_type(pc)) != t || eng!("bits_for_piece", pb.bits_for_piece(pc, true)) != t & pb.p1_pieces || eng!("bits_for_piece", pb.bits_for_piece(pc, false)) != t & pb.all_pieces & !pb.p1_pieces {
            return Err("bits_for_piece / bits_by_piece_type disagree with the fields".into());
        }
    }
    let board = decode_board(pb)?;
    for i in 0..64u8 {
        let sq = Square::from_index(i);
        let got = eng!("piece_type_at_square", pb.piece_type_at_square(&sq)).map(kind_of);
        if got != board[bit_to_sq(i).0 as usize].map(|(_, k)| k) {
            return Err("piece_type_at_square disagrees with the bitboards".into());
        }
    }
    let side = if gs.is_p1_turn_to_move() { Side::Gold } else { Side::Silver };
    let printed = eng!("Display", gs.to_string());
    if printed != diagram(&board, side, gs.move_number() as u128) {
        return Err(format!("the printed diagram does not show the bitboards' position:\n{}", printed));
    }
    Ok(board)
}

impl World {
    pub fn initial() -> World {
        World { gs: eng!("GameState::initial", GameState::initial()), m: Model::initial(), rec: Recorder::new(), lineage_hash: vec![], path_fp: 1, cause: Cause::Initial, acted: false }
    }

    /// start from a diagram in the model's own format; the engine parses the same text
    pub fn from_diagram(ctx: &mut Ctx, text: &str) -> Result<World, Stop> {
        let (board, side, move_no) = parse_diagram(text).ok_or_else(|| Stop::Invalid("start diagram not in the model's format".into()))?;
        // The engine reads the position in another spelling (F4: text written by another tool).
        // No property says how the reader must understand characters the engine never prints, so a
        // reader that rejects the spelling or reads a different (consistent) position from it is
        // not an alarm: the run then starts from the canonical text.  What C10 does say is that
        // whatever state the reader returns must have consistent views.
        let spelled = respell(text);
        let mut adopted: Option<GameState> = None;
        if spelled != text {
            match eng!("GameState::from_str", spelled.parse::<GameState>()) {
                Err(_) => ctx.stats.inc("fault.respelled_text_rejected"),
                Ok(g) => match structural_views(&g) {
                    Err(e) => ctx.check("views.parsed_text", p(10), false, || format!("the state parsed from this diagram has inconsistent views ({}):\n{}", e, spelled)),
                    Ok(b) => {
                        let same = b == board && g.is_p1_turn_to_move() == (side == Side::Gold) && g.move_number() as u128 == move_no;
                        if same {
                            ctx.stats.inc("fault.start_text_respelled");
                            adopted = Some(g);
                        } else {
                            ctx.stats.inc("fault.respelled_text_read_differently");
                        }
                    }
                },
            }
        }
        let parsed = match adopted {
            Some(g) => Ok(g),
            None => eng!("GameState::from_str", text.parse::<GameState>()),
        };
        ctx.check("parse.ok", p(15), parsed.is_ok(), || format!("well-formed diagram rejected: {:?}", parsed.as_ref().err().map(|e| e.to_string())));
        let gs = match parsed {
            Ok(gs) => gs,
            Err(_) => {
                return Err(match ctx.owned_finding() {
                    Some(f) => Stop::Violation(f),
                    None => Stop::ForeignAbort("start diagram rejected by the engine".into()),
                })
            }
        };
        let mut rec = Recorder::new();
        rec.begin(&board, side);
        let lineage_hash = vec![scratch_turn_start_hash(&board, side)];
        let mut f = Fp::new();
        f.str(text);
        Ok(World { gs, m: Model::from_position(board, side, move_no), rec, lineage_hash, path_fp: f.finish(), cause: Cause::Parsed, acted: false })
    }

    pub fn checkpoint(&self) -> Checkpoint {
        Checkpoint { gs: self.gs.clone(), m: self.m.clone(), lineage_len: self.rec.lineage.len(), turn_boards: self.rec.turn_boards.clone(), path_fp: self.path_fp, cause: self.cause, acted: self.acted }
    }
    pub fn restore(&mut self, cp: Checkpoint) {
        self.gs = cp.gs;
        self.m = cp.m;
        self.rec.rollback(cp.lineage_len, cp.turn_boards);
        self.lineage_hash.truncate(cp.lineage_len);
        self.path_fp = cp.path_fp;
        self.cause = cp.cause;
        self.acted = cp.acted;
    }

    /// after the monitors of a step: alarm if the running property owns a finding, otherwise
    /// resynchronise the model from what the engine reports and carry on
    pub fn settle(&mut self, ctx: &mut Ctx) -> Result<(), Stop> {
        if ctx.findings.is_empty() {
            return Ok(());
        }
        if let Some(f) = ctx.owned_finding() {
            ctx.findings.clear();
            return Err(Stop::Violation(f));
        }
        ctx.stats.add("foreign_findings", ctx.findings.len() as u64);
        let first = ctx.findings[0].clone();
        ctx.findings.clear();
        match model_from_engine(&self.gs) {
            Ok(m) => {
                self.m = m;
                ctx.stats.inc("resyncs");
                Ok(())
            }
            Err(e) => Err(Stop::ForeignAbort(format!("{} ({}); resync impossible: {}", first.monitor, first.detail, e))),
        }
    }

    fn side_of_engine(&self) -> Side {
        if self.gs.is_p1_turn_to_move() {
            Side::Gold
        } else {
            Side::Silver
        }
    }

    // ------------------------------------------------------------------ state monitors
    /// cheap monitors: views, board, counters, pending, per-turn boards, hashes.
    /// Returns the decoded engine board.
    pub fn check_cheap(&mut self, ctx: &mut Ctx, eq: &mut EqTable) -> Result<Board, Stop> {
        self.check_cheap_(ctx, eq, false)
    }
    fn check_cheap_(&mut self, ctx: &mut Ctx, eq: &mut EqTable, defer_pending: bool) -> Result<Board, Stop> {
        let own_board = match self.cause {
            Cause::Parsed => p(15),
            Cause::Place | Cause::Initial => p(9),
            _ => p(2),
        };
        let own_count = match self.cause {
            Cause::Parsed => p(15),
            Cause::Place | Cause::Initial => p(9),
            _ => p(3),
        };
        let gs = &self.gs;
        let m = &self.m;
        let pb: &PieceBoardState = eng!("piece_board", gs.piece_board());

        // ---- C10: all views agree
        let types = [pb.rabbits, pb.cats, pb.dogs, pb.horses, pb.camels, pb.elephants];
        let mut union = 0u64;
        let mut disjoint = true;
        for t in types {
            if union & t != 0 {
                disjoint = false;
            }
            union |= t;
        }
        ctx.check("views.types_disjoint", p(10), disjoint, || format!("type boards overlap: {:x?}", types));
        ctx.check("views.union_is_all", p(10), union == pb.all_pieces, || format!("union {:x} all_pieces {:x}", union, pb.all_pieces));
        ctx.check("views.p1_subset", p(10), pb.p1_pieces & !pb.all_pieces == 0, || format!("p1 {:x} all {:x}", pb.p1_pieces, pb.all_pieces));
        let mut acc_ok = eng!("player_piece_mask", pb.player_piece_mask(true)) == pb.p1_pieces
            && eng!("player_piece_mask", pb.player_piece_mask(false)) == pb.all_pieces & !pb.p1_pieces;
        for (pc, k) in PIECES {
            let t = types[k as usize];
            acc_ok &= eng!("bits_by_piece_type", pb.bits_by_piece_type(pc)) == t;
            acc_ok &= eng!("bits_for_piece", pb.bits_for_piece(pc, true)) == t & pb.p1_pieces;
            acc_ok &= eng!("bits_for_piece", pb.bits_for_piece(pc, false)) == t & pb.all_pieces & !pb.p1_pieces;
        }
        ctx.check("views.accessors", p(10), acc_ok, || "bits_for_piece / player_piece_mask / bits_by_piece_type disagree with the fields".into());
        let board = match decode_board(pb) {
            Ok(b) => b,
            Err(e) => {
                ctx.check("views.one_piece_per_square", p(10), false, || e.clone());
                self.settle(ctx)?;
                return Err(Stop::ForeignAbort(e));
            }
        };
        let mut lookup_ok = true;
        for i in 0..64u8 {
            let sq = Square::from_index(i);
            let got = eng!("piece_type_at_square", pb.piece_type_at_square(&sq)).map(kind_of);
            let want = board[bit_to_sq(i).0 as usize].map(|(_, k)| k);
            if got != want {
                lookup_ok = false;
            }
            // union of the per-type boards must also be what the lookup sees as occupied
            if (pb.all_pieces >> i & 1 == 1) != want.is_some() && disjoint && union == pb.all_pieces {
                lookup_ok = false;
            }
        }
        ctx.check("views.square_lookup", p(10), lookup_ok, || "piece_type_at_square disagrees with the bitboards".into());
        let mut quota_ok = true;
        for s in [Side::Gold, Side::Silver] {
            for k in KINDS {
                if count(&board, s, k) > k.quota() {
                    quota_ok = false;
                }
            }
        }
        ctx.check("views.material_bounds", p(10), quota_ok, || format!("too many pieces of a type:\n{}", diagram(&board, Side::Gold, 0)));
        if self.acted {
            let un = unsupported_on_traps(&board);
            ctx.check("views.trap_rule", p(10) | p(2), un.is_empty(), || format!("unsupported piece left on a trap: {:?}", un));
        }
        let printed = eng!("Display", gs.to_string());
        let side_e = if gs.is_p1_turn_to_move() { Side::Gold } else { Side::Silver };
        let want_print = diagram(&board, side_e, gs.move_number() as u128);
        ctx.check("views.diagram", p(10), printed == want_print, || format!("printed diagram\n{}\ndoes not show the bitboards' position\n{}", printed, want_print));

        // ---- board / counters against the model
        ctx.check("board", own_board, board == m.board, || format!("engine board\n{}\nmodel board\n{}", diagram(&board, side_e, 0), diagram(&m.board, m.side, 0)));
        ctx.check("side", own_count, side_e == m.side, || format!("engine side {:?} model {:?}", side_e, m.side));
        ctx.check("move_number", own_count, gs.move_number() as u128 == m.move_no, || format!("engine move number {} model {}", gs.move_number(), m.move_no));
        ctx.check("phase", p(9) | own_count, gs.is_play_phase() != m.setup, || format!("engine play phase {} model setup {}", gs.is_play_phase(), m.setup));

        let mut step = 0usize;
        let mut pend = Pending::None;
        if let Some(pp) = gs.as_play_phase() {
            step = eng!("current_step", gs.current_step());
            ctx.check("step_range", p(3), step <= 3, || format!("step counter {}", step));
            ctx.check("step", own_count, step == m.steps_made() || m.setup, || format!("engine step {} model {}", step, m.steps_made()));
            let prev_len = eng!("previous_piece_boards", pp.previous_piece_boards().len());
            ctx.check("turn_record_len", p(3) | p(14), prev_len == step, || format!("previous_piece_boards().len() {} step {}", prev_len, step));
            match eng_pending(gs) {
                Ok(pe) => {
                    pend = pe;
                    let own_p = if m.steps_made() == 0 { p(12) | own_count } else { p(12) };
                    ctx.check("pending", own_p, pe == m.pending || m.setup, || format!("engine reports {:?}, model expects {:?}", pe, m.pending));
                }
                Err(e) => ctx.check("pending", p(12), false, || e),
            }
            // ---- C14: boards of earlier steps
            if step <= 3 {
                let tb = &self.rec.turn_boards;
                ctx.check("turn_boards.count", p(14), tb.len() == step + 1, || format!("recorder has {} boards this turn, engine step {}", tb.len(), step));
                for i in 0..=step.min(tb.len().saturating_sub(1)) {
                    let got = decode_board(eng!("piece_board_for_step", gs.piece_board_for_step(i)));
                    let ok = matches!(&got, Ok(b) if *b == tb[i]);
                    ctx.check("turn_boards.board", p(14), ok, || format!("piece_board_for_step({}) at step {} is not the board that stood after {} steps of this turn", i, step, i));
                    if i < step {
                        ctx.nontrivial(p(14), {
                            let mut f = Fp::new();
                            f.u64(state_fp(&board, side_e, step, pend));
                            f.u8(i as u8);
                            f.bytes(&board_key(&tb[i]));
                            f.finish()
                        });
                    }
                }
            }
            // ---- C08: hash from scratch, history list, equality table
            if step <= 3 {
                let scratch = eng!("Zobrist::from_piece_board", Zobrist::from_piece_board(pb, gs.is_p1_turn_to_move(), step));
                let with = eng!("board_state_hash_with_push_pull_state", scratch.board_state_hash_with_push_pull_state(pp.push_pull_state()));
                let th = eng!("transposition_hash", gs.transposition_hash());
                ctx.check("hash.from_scratch", p(8), with == th, || format!("transposition_hash {:016x} != from-scratch {:016x}", th, with));
                // how often the injected fault is effective: two different states of this run with one hash
                if crate::game::collide_build() && eq.hashes.len() < 50_000 {
                    let fp = state_fp(&board, side_e, step, pend);
                    match eq.hashes.get(&th) {
                        Some(other) if *other != fp => ctx.stats.inc("fault.hash_collision_between_visited_states"),
                        Some(_) => {}
                        None => {
                            eq.hashes.insert(th, fp);
                        }
                    }
                }
                let hist = eng!("hash_history", pp.hash_history());
                let n = self.lineage_hash.len();
                let len = hist.len();
                ctx.check("hash.history_len", p(8), len <= n, || format!("history list has {} entries, only {} turn starts happened", len, n));
                let mut k = 0usize;
                let mut bad: Option<usize> = None;
                for z in eng!("hash_history.iter", hist.iter()) {
                    if k >= n {
                        break;
                    }
                    if z.board_state_hash() != self.lineage_hash[n - 1 - k] {
                        bad = Some(k);
                        break;
                    }
                    k += 1;
                }
                ctx.check("hash.history_entries", p(8), bad.is_none(), || format!("history entry {} (newest first) is not the from-scratch hash of that turn start", bad.unwrap()));
                // equality table
                let key = (board_key(&board), side_e as u8, step as u8);
                if let Some((rep, rep_path, rep_std, rep_boards, rep_pend)) = eq.map.get(&key) {
                    let same = *rep == *gs && *rep_std == std_hash(gs);
                    ctx.check("hash.equal_states", p(8), same, || "two states with the same board, side and step are not == / do not hash equal".to_string());
                    if *rep_path != self.path_fp {
                        ctx.nontrivial(p(8), state_fp(&board, side_e, step, pend));
                        ctx.stats.inc("c08.second_arrivals_other_path");
                        // transposition twins: the same position reached along two different paths
                        // (other step order inside the turn, other turn, other branch).  Expanded
                        // back to back, each must keep its own turn record and both must give the
                        // same children: anything remembered per position instead of per state shows.
                        let twin_props = p(2) | p(8) | p(13) | p(14);
                        if ctx.own & twin_props != 0 && eq.twins < 60 && *rep_boards != self.rec.turn_boards && self.rec.turn_boards.len() == step + 1 && rep_boards.len() == step + 1 {
                            eq.twins += 1;
                            ctx.stats.inc("twin_expansions");
                            let mine = eng!("valid_actions", gs.valid_actions());
                            let theirs = eng!("valid_actions", rep.valid_actions());
                            let common: Vec<Action> = mine.iter().filter(|a| !matches!(a, Action::Pass) && theirs.contains(a)).cloned().collect();
                            let n = common.len();
                            for j in 0..n.min(3) {
                                let a = &common[((self.path_fp as usize) + j * 7) % n];
                                let pv_rep = eng!("trapped_animal_for_action", rep.trapped_animal_for_action(a));
                                let pv_me = eng!("trapped_animal_for_action", gs.trapped_animal_for_action(a));
                                // alternate who is expanded first
                                let (c_rep, c_me) = if j % 2 == 0 {
                                    let x = eng!("take_action", rep.take_action(a));
                                    let y = eng!("take_action", gs.take_action(a));
                                    (x, y)
                                } else {
                                    let y = eng!("take_action", gs.take_action(a));
                                    let x = eng!("take_action", rep.take_action(a));
                                    (x, y)
                                };
                                let (b_rep, b_me) = (decode_board(eng!("piece_board", c_rep.piece_board())), decode_board(eng!("piece_board", c_me.piece_board())));
                                let same_board = matches!((&b_rep, &b_me), (Ok(x), Ok(y)) if x == y);
                                ctx.check("twins.same_child_board", p(2), same_board, || format!("{} applied to two states with the same board gives different boards", a));
                                let pv_same = pv_rep.map(|(sq, pc, g)| (sq.to_string(), kind_of(pc), g)) == pv_me.map(|(sq, pc, g)| (sq.to_string(), kind_of(pc), g));
                                ctx.check("twins.same_preview", p(13), pv_same, || format!("capture preview of {} differs between two states with the same board", a));
                                if *rep_pend == pend {
                                    let (h1, h2) = (eng!("transposition_hash", c_rep.transposition_hash()), eng!("transposition_hash", c_me.transposition_hash()));
                                    ctx.check("twins.same_child_hash", p(8), h1 == h2, || format!("{} applied to two states with the same board, side, step and status gives different hashes", a));
                                }
                                for (child, boards, who) in [(&c_rep, rep_boards, "first"), (&c_me, &self.rec.turn_boards, "second")] {
                                    let same_turn = child.is_play_phase() && eng!("current_step", child.current_step()) == step + 1 && child.is_p1_turn_to_move() == gs.is_p1_turn_to_move();
                                    if same_turn {
                                        for i in 0..=step {
                                            let got = decode_board(eng!("piece_board_for_step", child.piece_board_for_step(i)));
                                            let ok = matches!(&got, Ok(b) if *b == boards[i]);
                                            ctx.check("twins.turn_boards", p(14), ok, || format!("after {} on the {} of two states with the same board reached by different step orders, piece_board_for_step({}) is not the board that stood after {} steps on that state's own path", a, who, i, i));
                                        }
                                    }
                                }
                            }
                        }
                    }
                } else if eq.map.len() < 20_000 {
                    eq.map.insert(key, (gs.clone(), self.path_fp, std_hash(gs), self.rec.turn_boards.clone(), pend));
                }
                // a twin with an unrelated history: after the first step of a turn, the same board,
                // side and step is built a second way - from the parsed position in which some
                // other own piece stands one square back, by stepping that piece forward.  "Whatever
                // sequence of placements, steps, captures and passes produced it": the two must be
                // equal and hash equal although one may have seen a capture, a repetition or a
                // long game and the other nothing at all.
                if step == 1 && ctx.own & p(8) != 0 && eq.retractions < 6 {
                    let mut cands: Vec<(Sq, Sq, Dir)> = vec![];
                    for i in 0..64u8 {
                        let q = Sq(i);
                        if let Some((s, k)) = board[i as usize] {
                            if s != side_e {
                                continue;
                            }
                            for d in DIRS {
                                // the piece came from q2 = q - d by stepping in direction d
                                let back = match d { Dir::N => Dir::S, Dir::S => Dir::N, Dir::E => Dir::W, Dir::W => Dir::E };
                                if let Some(q2) = q.step(back) {
                                    let rabbit_backwards = k == Kind::R && ((s == Side::Gold && d == Dir::S) || (s == Side::Silver && d == Dir::N));
                                    if board[q2.0 as usize].is_none() && !rabbit_backwards {
                                        cands.push((q, q2, d));
                                    }
                                }
                            }
                        }
                    }
                    if !cands.is_empty() {
                        let (q, q2, d) = cands[(self.path_fp as usize) % cands.len()];
                        let mut prev = board;
                        prev[q2.0 as usize] = prev[q.0 as usize].take();
                        if unsupported_on_traps(&prev).is_empty() && !frozen(&prev, q2) {
                            let text = diagram(&prev, side_e, gs.move_number() as u128);
                            if let Ok(g0) = eng!("GameState::from_str", text.parse::<GameState>()) {
                                let want = format!("{}{}", q2.name(), d.letter());
                                let offered = eng!("valid_actions", g0.valid_actions());
                                if eng!("is_terminal", g0.is_terminal()).is_none() {
                                    if let Some(a) = offered.iter().find(|a| a.to_string() == want) {
                                        let twin = eng!("take_action", g0.take_action(a));
                                        let same_pos = matches!(decode_board(eng!("piece_board", twin.piece_board())), Ok(b) if b == board)
                                            && twin.is_play_phase() && eng!("current_step", twin.current_step()) == 1 && twin.is_p1_turn_to_move() == gs.is_p1_turn_to_move();
                                        if same_pos {
                                            eq.retractions += 1;
                                            ctx.stats.inc("c08.twins_with_unrelated_history");
                                            let same = twin == *gs && std_hash(&twin) == std_hash(gs);
                                            ctx.check("hash.equal_states_unrelated_history", p(8), same, || format!("the same board, side and step reached from a parsed position by {} is not == / does not hash equal to this state", want));
                                        }
                                    }
                                }
                            }
                        }
                    }
                }
            }
        } else {
            let th = eng!("transposition_hash", gs.transposition_hash());
            ctx.observe(th);
        }
        let sfp = state_fp(&board, side_e, step, pend);
        ctx.visit_state(sfp);
        ctx.observe(sfp);
        ctx.nontrivial(p(10), sfp);
        ctx.nontrivial(p(19), sfp);
        if pend != Pending::None {
            ctx.nontrivial(p(12), sfp);
        }
        // A wrong push/pull status by itself belongs to C12, but what it does to the offered
        // sequences belongs to C01: when the status is the ONLY disagreement, the full state check
        // compares the lists against the status the rules require before the model is resynchronised.
        if defer_pending && !ctx.findings.is_empty() && ctx.findings.iter().all(|f| f.monitor == "pending") && ctx.owned_finding().is_none() {
            return Ok(board);
        }
        self.settle(ctx)?;
        Ok(board)
    }

    /// all monitors of a visited state; returns the lists the driver chooses from
    pub fn check_state(&mut self, ctx: &mut Ctx, eq: &mut EqTable) -> Result<StateInfo, Stop> {
        let board = self.check_cheap_(ctx, eq, true)?;
        let side_e = self.side_of_engine();
        let norep = eng!("valid_actions_no_rep", self.gs.valid_actions_no_rep());
        let rep = eng!("valid_actions", self.gs.valid_actions());
        let ns = strs(&norep);
        let rs = strs(&rep);
        ctx.stats.max("max.offered_list_length", rep.len() as u64);
        for s in &ns {
            ctx.observe({
                let mut f = Fp::new();
                f.str(s);
                f.finish()
            });
        }
        let m = &self.m;
        let setup = m.setup;
        let push_pending = matches!(m.pending, Pending::Push(..));
        let own_list = if setup {
            p(9)
        } else if push_pending {
            p(1) | p(12)
        } else {
            p(1)
        };
        // ---- C01 / C09 / C12: rule-only list
        let mut sorted = ns.clone();
        sorted.sort();
        let dup = sorted.windows(2).any(|w| w[0] == w[1]);
        ctx.check("list.no_duplicates", own_list, !dup, || format!("rule-only list repeats an action: {:?}", ns));
        let mut rsorted = rs.clone();
        rsorted.sort();
        ctx.check("list.no_duplicates_offered", own_list, !rsorted.windows(2).any(|w| w[0] == w[1]), || format!("offered list repeats an action: {:?}", rs));
        sorted.dedup();
        let legal = m.legal();
        let mut lt: Vec<String> = legal.iter().map(|a| a.text()).collect();
        lt.sort();
        ctx.check("list.rule_only_set", own_list, sorted == lt, || {
            let only_e: Vec<&String> = sorted.iter().filter(|x| !lt.contains(x)).collect();
            let only_m: Vec<&String> = lt.iter().filter(|x| !sorted.contains(x)).collect();
            format!("engine offers but rules do not allow: {:?}; rules allow but engine does not offer: {:?} (step {}, pending {:?})", only_e, only_m, m.steps_made(), m.pending)
        });
        if !setup {
            let pass_in = ns.iter().any(|s| s == "p");
            ctx.check("list.pass_iff", p(1), pass_in == (m.steps_made() >= 1 && !push_pending), || format!("pass offered {} at step {} pending {:?}", pass_in, m.steps_made(), m.pending));
            if push_pending {
                ctx.check("list.push_completion_nonempty", p(1) | p(12), !ns.is_empty() && m.steps_made() <= 3, || "a push is pending and nothing completes it".to_string());
            }
            let has_displacement = legal.iter().any(|a| matches!(a, Act::Step(q, _) if matches!(m.board[q.0 as usize], Some((s, _)) if s != m.side)));
            if has_displacement || m.pending != Pending::None {
                ctx.nontrivial(p(1), state_fp(&board, side_e, m.steps_made(), m.pending));
            }
        } else {
            // C09 coverage class: (mover, pieces placed per type) x offered types
            let mut f = Fp::new();
            f.u8(m.side as u8);
            for k in KINDS {
                f.u8(count(&m.board, m.side, k) as u8);
            }
            ctx.nontrivial(p(9), f.finish());
        }

        // ---- C06 / C05: what the repetition rules withhold, by the exact recorded history
        let mut withheld_any = false;
        if !setup && self.gs.is_play_phase() {
            let step_e = eng!("current_step", self.gs.current_step());
            let mut expect: Vec<String> = vec![];
            for (a, s) in norep.iter().zip(ns.iter()) {
                let ends = matches!(a, Action::Pass) || (matches!(a, Action::Move(..)) && step_e == 3);
                if !ends {
                    expect.push(s.clone());
                    continue;
                }
                let child = eng!("take_action", self.gs.take_action(a));
                let nb = match decode_board(eng!("piece_board", child.piece_board())) {
                    Ok(b) => b,
                    Err(_) => {
                        expect.push(s.clone());
                        continue;
                    }
                };
                let (unchanged, third) = self.rec.forbidden_end(&nb, side_e.other());
                let offered_here = rs.contains(s);
                if unchanged || third {
                    withheld_any = true;
                    let which = if matches!(a, Action::Pass) { "pass" } else { "fourth_step" };
                    let why = if unchanged { "unchanged" } else { "third" };
                    ctx.stats.inc(&format!("withheld.{}.{}", which, why));
                    ctx.check("turn_end.offered_breaks_rule", p(5), !offered_here, || {
                        format!("offered action {} would end the turn {}", s, if unchanged { "on the board it started from" } else { "on a position that already stood twice at a start of turn" })
                    });
                    if third && !unchanged {
                        ctx.nontrivial(p(5), {
                            let mut f = Fp::new();
                            f.bytes(&board_key(&nb));
                            f.u8(side_e as u8);
                            f.finish()
                        });
                    }
                } else {
                    expect.push(s.clone());
                    ctx.check("turn_end.offered_breaks_rule", p(5), true, String::new);
                }
            }
            ctx.check("offered.filter_exact", p(6), expect == rs, || {
                format!("offered list {:?}\nexpected (rule-only list minus exactly the turn-ending actions the exact history forbids) {:?}", rs, expect)
            });
            if withheld_any && ctx.captured.len() < ctx.capture_limit {
                // class 2: some but not all turn-ending actions are third repetitions (mixed answers)
                let thirds = ns.len() - expect.len();
                let class = if step_e == 3 && thirds > 0 && !expect.is_empty() { 2 } else { 1 };
                ctx.captured.push((class, self.gs.clone()));
            }
            if withheld_any {
                let fp = state_fp(&board, side_e, step_e, self.m.pending);
                ctx.nontrivial(p(6), fp);
                if step_e > 0 {
                    ctx.nontrivial(p(7), fp);
                }
                if rs.is_empty() && !push_pending {
                    ctx.stats.inc("c07.all_withheld_without_pending_push");
                }
            }
        } else {
            ctx.check("offered.filter_exact", p(6) | p(9), ns == rs, || format!("setup: offered {:?} rule-only {:?}", rs, ns));
        }

        // ---- C04 / C07: result and summary queries
        let result = eng!("is_terminal", self.gs.is_terminal());
        let want = self.m.result(&self.rec);
        let mid = !setup && self.m.steps_made() > 0;
        ctx.check("result", if mid { p(7) | p(4) } else { p(4) }, outcome_of(&result) == want, || {
            format!("is_terminal() = {:?}, official order gives {:?} (setup {}, steps made {})\n{}", result, want, setup, self.m.steps_made(), self.m.diagram())
        });
        ctx.check("progress.unfinished_has_action", p(7), result.is_some() || !rep.is_empty(), || "no result is reported but the offered list is empty".to_string());
        if self.gs.is_play_phase() && eng!("current_step", self.gs.current_step()) > 0 {
            ctx.check("progress.midturn_result_iff_empty", p(7) | p(4), result.is_some() == rep.is_empty(), || format!("mid-turn: result {:?} but offered list {:?}", result, rs));
            if let Some(o) = outcome_of(&result) {
                ctx.check("progress.midturn_result_is_loss", p(7), o == win(side_e.other()), || format!("mid-turn result {:?} with {:?} on move", o, side_e));
                ctx.stats.inc(if push_pending { "midturn_loss.push_pending" } else { "midturn_loss.no_push_pending" });
            }
        }
        let cp_rep = eng!("can_pass(true)", self.gs.can_pass(true));
        let cp_norep = eng!("can_pass(false)", self.gs.can_pass(false));
        let hm = eng!("has_move", self.gs.has_move(self.gs.piece_board()));
        ctx.check("query.can_pass_rep", p(7), cp_rep == rep.contains(&Action::Pass), || format!("can_pass(true) = {} but offered list {:?}", cp_rep, rs));
        ctx.check("query.can_pass_norep", p(7), cp_norep == norep.contains(&Action::Pass), || format!("can_pass(false) = {} but rule-only list {:?}", cp_norep, ns));
        ctx.check("query.has_move", p(7), hm.is_none() == !rep.is_empty(), || format!("has_move = {:?} but offered list {:?}", hm, rs));
        if let Some(o) = &hm {
            ctx.check("query.has_move_loser", p(7), outcome_of(&Some(o.clone())) == Some(win(side_e.other())), || format!("has_move reports {:?} with {:?} on move", o, side_e));
        }
        if !setup && !mid {
            let c = self.m.conditions(&self.rec);
            if c.iter().any(|x| *x) {
                ctx.nontrivial(p(4), {
                    let mut f = Fp::new();
                    f.bytes(&board_key(&board));
                    f.u8(side_e as u8);
                    f.finish()
                });
                let code: String = c.iter().map(|x| if *x { '1' } else { '0' }).collect();
                ctx.stats.inc(&format!("c04.conditions.{}", code));
            }
            // goal-square probes: which goal squares carried a deciding rabbit, for mover / waiter
            if c[0] || c[1] {
                for s in [Side::Gold, Side::Silver] {
                    let r = if s == Side::Gold { 8 } else { 1 };
                    for f in 0..8 {
                        if self.m.board[Sq::new(f, r).0 as usize] == Some((s, Kind::R)) {
                            ctx.stats.inc(&format!("c04.goal.{}{}.{}", (b'a' + f) as char, r, if s == self.m.side { "to_move" } else { "just_moved" }));
                        }
                    }
                }
            }
        }
        ctx.observe(match outcome_of(&result) {
            None => 0,
            Some(Outcome::GoldWin) => 1,
            Some(Outcome::SilverWin) => 2,
        });
        if ctx.guided && !setup {
            // abstract features of this state; rare combinations become starting points of later runs
            let step_e = if self.gs.is_play_phase() { eng!("current_step", self.gs.current_step()) } else { 0 };
            let mut own_steps = false;
            let mut pulls = false;
            let mut pushes = false;
            for a in self.m.legal() {
                if let Act::Step(q, d) = a {
                    match self.m.board[q.0 as usize] {
                        Some((s, _)) if s == self.m.side => own_steps = true,
                        Some(_) => {
                            let t = q.step(d);
                            if matches!(self.m.pending, Pending::Pull(v, _) if Some(v) == t) { pulls = true } else { pushes = true }
                        }
                        None => {}
                    }
                }
            }
            let all_frozen = (0..64u8).all(|i| !matches!(self.m.board[i as usize], Some((s, _)) if s == self.m.side) || frozen(&self.m.board, Sq(i)));
            let pass_state = if ns.iter().any(|x| x == "p") { if rs.iter().any(|x| x == "p") { 1 } else { 2 } } else { 0 };
            let trapped = self.gs.as_play_phase().map_or(false, |pp| pp.piece_trapped_this_turn());
            let cycle = self.rec.turn_boards.first().map_or(false, |b| self.rec.occurrences(b, self.m.side) >= 2);
            let res = match (outcome_of(&result), mid) { (None, _) => 0, (Some(_), true) => 1, (Some(_), false) => 2 };
            let npieces = pieces(&self.m.board);
            let bucket = if npieces <= 4 { 0 } else if npieces <= 8 { 1 } else if npieces <= 16 { 2 } else { 3 };
            let mut f = Fp::new();
            for v in [step_e as u8, match self.m.pending { Pending::None => 0, Pending::Pull(..) => 1, Pending::Push(..) => 2 }, pass_state, own_steps as u8, pulls as u8, pushes as u8,
                withheld_any as u8, (rs.len() == 1) as u8, rs.is_empty() as u8, all_frozen as u8, trapped as u8, cycle as u8, res, bucket, self.m.side as u8] {
                f.u8(v);
            }
            ctx.last_feature = Some(f.finish());
            // states with hardly any action left while the repetition rules are biting are where the
            // summary queries and the result can go wrong: continue from them more often
            ctx.last_feature_weight = if rs.len() <= 2 && withheld_any { 8 } else if rs.len() <= 3 || (withheld_any && step_e >= 2) { 3 } else { 1 };
        }
        // ---- answers are functions of the state: near-variants of this position (one piece's owner
        // flipped, all owners swapped, the other side to move, one piece's type changed) are
        // parsed and queried as decoys, then this state is asked again: it must answer as before.
        // Anything the engine remembers between calls under a key that does not tell such
        // positions apart shows up here, inside one run, and therefore replays.
        let decoy_props = p(1) | p(4) | p(6) | p(7) | p(12);
        if ctx.own & decoy_props != 0 && !self.m.setup && eq.decoys < 3 && (self.path_fp >> 7) % 5 == 0 {
            eq.decoys += 1;
            ctx.stats.inc("decoy_rounds");
            let b = self.m.board;
            let occupied: Vec<usize> = (0..64).filter(|i| b[*i].is_some()).collect();
            let mut variants: Vec<(Board, Side)> = vec![];
            if !occupied.is_empty() {
                let i = occupied[(self.path_fp as usize >> 11) % occupied.len()];
                let mut v = b;
                if let Some((s, k)) = v[i] {
                    v[i] = Some((s.other(), k));
                }
                variants.push((v, side_e));
                let mut v = b;
                if let Some((s, k)) = v[i] {
                    v[i] = Some((s, KINDS[(k as usize + 1) % 6]));
                }
                variants.push((v, side_e));
            }
            let mut v = b;
            for c in v.iter_mut() {
                if let Some((s, k)) = *c {
                    *c = Some((s.other(), k));
                }
            }
            variants.push((v, side_e));
            variants.push((b, side_e.other()));
            for (vb, vs) in variants {
                let crumb = crumb_take();
                let text = diagram(&vb, vs, self.m.move_no);
                // a decoy may be a position no game reaches (two elephants of one colour, a rabbit
                // on its goal rank): whatever the engine does with it is nobody's finding
                let answered = std::panic::catch_unwind(std::panic::AssertUnwindSafe(|| {
                    text.parse::<GameState>().ok().map(|d| {
                        // the rule-only list first: it is the first thing asked of the decoy after
                        // the real state was queried
                        let mut l = strs(&d.valid_actions_no_rep());
                        let _ = d.valid_actions();
                        let t = outcome_of(&d.is_terminal());
                        let _ = d.can_pass(true);
                        l.sort();
                        l.dedup();
                        (l, t)
                    })
                }));
                last_panic_take();
                crumb_restore(crumb);
                // a decoy that is itself a legal position (material within bounds, nothing left
                // unsupported on a trap) is a parsed legal position like any other: its answers
                // are compared with the rules too
                let legal_looking = unsupported_on_traps(&vb).is_empty() && [Side::Gold, Side::Silver].iter().all(|sd| KINDS.iter().all(|k| count(&vb, *sd, *k) <= k.quota()));
                if let (Ok(Some((got_list, got_result))), true) = (&answered, legal_looking) {
                    let dm = Model::from_position(vb, vs, self.m.move_no);
                    let mut drec = Recorder::new();
                    drec.begin(&vb, vs);
                    let mut want: Vec<String> = dm.legal().iter().map(|a| a.text()).collect();
                    want.sort();
                    ctx.check("decoy.rule_only_set", p(1), *got_list == want, || format!("a position queried right after this one lists {:?}, the rules give {:?}:\n{}", got_list, want, text));
                    let want_r = dm.result(&drec);
                    ctx.check("decoy.result", p(4), *got_result == want_r, || format!("a position queried right after this one reports {:?}, the official order gives {:?}:\n{}", got_result, want_r, text));
                }
                // one-entry memos only remember the last call: ask again after every decoy
            let rep2 = eng!("valid_actions", self.gs.valid_actions());
            let norep2 = eng!("valid_actions_no_rep", self.gs.valid_actions_no_rep());
            let result2 = eng!("is_terminal", self.gs.is_terminal());
            ctx.check("repeatable.lists", p(1) | p(6) | p(7) | p(12), rep2 == rep && norep2 == norep, || format!("asked again after other positions were queried, the state lists {:?} / rule-only {:?} instead of {:?} / {:?}", strs(&rep2), strs(&norep2), strs(&rep), strs(&norep)));
            ctx.check("repeatable.result", p(4) | p(7), outcome_of(&result2) == outcome_of(&result), || format!("asked again after other positions were queried, the result is {:?} instead of {:?}", result2, result));
            }
        }
        ctx.check("panic_free.state_queries", p(19), true, String::new);
        self.settle(ctx)?;
        let finished = result.is_some() || rep.is_empty();
        Ok(StateInfo { offered: rep, norep, finished })
    }

    /// print, parse, compare (C15); `adopt` = continue from the parsed state (a restart)
    pub fn check_roundtrip(&mut self, ctx: &mut Ctx) -> Result<Option<GameState>, Stop> {
        let text = eng!("Display", self.gs.to_string());
        let parsed = eng!("GameState::from_str", text.parse::<GameState>());
        ctx.check("roundtrip.parse_ok", p(15), parsed.is_ok(), || format!("printed diagram rejected:\n{}", text));
        let out = if let Ok(g) = parsed {
            let same_board = matches!((decode_board(g.piece_board()), decode_board(self.gs.piece_board())), (Ok(a), Ok(b)) if a == b);
            ctx.check("roundtrip.board", p(15), same_board, || format!("parse(print(s)) has a different board:\n{}", g));
            ctx.check("roundtrip.side", p(15), g.is_p1_turn_to_move() == self.gs.is_p1_turn_to_move(), || "side to move changed".into());
            ctx.check("roundtrip.move_number", p(15), g.move_number() == self.gs.move_number(), || format!("move number {} -> {}", self.gs.move_number(), g.move_number()));
            let fresh = g.is_play_phase() && eng!("current_step", g.current_step()) == 0 && matches!(eng_pending(&g), Ok(Pending::None)) && g.unwrap_play_phase().previous_piece_boards().is_empty();
            ctx.check("roundtrip.start_of_turn", p(15), fresh, || "parsed state is not a fresh start-of-turn state".into());
            let again = eng!("Display", g.to_string());
            ctx.check("roundtrip.print_identical", p(15), again == text, || format!("printed form changed:\n{}\n->\n{}", text, again));
            if self.gs.is_play_phase() && eng!("current_step", self.gs.current_step()) == 0 {
                let (h1, h2) = (eng!("transposition_hash", g.transposition_hash()), eng!("transposition_hash", self.gs.transposition_hash()));
                ctx.check("roundtrip.hash", p(15) | p(8), h1 == h2, || format!("start-of-turn hash {:016x} -> {:016x}", h2, h1));
            }
            ctx.nontrivial(p(15), {
                let mut f = Fp::new();
                f.str(&text);
                f.finish()
            });
            Some(g)
        } else {
            None
        };
        self.settle(ctx)?;
        Ok(out)
    }

    /// restart from the durable text: only board, side and move number survive
    pub fn restart(&mut self, ctx: &mut Ctx) -> Result<(), Stop> {
        let mid = self.gs.is_play_phase() && eng!("current_step", self.gs.current_step()) > 0;
        let g = match self.check_roundtrip(ctx)? {
            Some(g) => g,
            None => return Err(Stop::ForeignAbort("restart: printed diagram rejected".into())),
        };
        ctx.stats.inc(if !self.gs.is_play_phase() {
            "fault.restart.setup"
        } else if mid {
            "fault.restart.mid_turn"
        } else {
            "fault.restart.turn_start"
        });
        self.gs = g;
        self.m = Model::from_position(self.m.board, self.m.side, self.m.move_no);
        let (b, s) = (self.m.board, self.m.side);
        self.rec.begin(&b, s);
        self.lineage_hash = vec![scratch_turn_start_hash(&b, s)];
        self.cause = Cause::Parsed;
        self.acted = false;
        let mut f = Fp::new();
        f.u64(self.path_fp);
        f.str("!restart");
        self.path_fp = f.finish();
        Ok(())
    }

    // ------------------------------------------------------------------ edge monitors
    /// apply an offered action to engine, model and recorder, with the edge monitors
    /// (capture preview, wire round trip, conservation, turn-end rules).
    pub fn apply(&mut self, ctx: &mut Ctx, a: &Action, wire: bool) -> Result<(), Stop> {
        let text = a.to_string();
        let act = Act::parse(&text);
        ctx.check("wire.print_parses_in_model_notation", p(16), act.is_some(), || format!("action prints as {:?}", text));
        if wire {
            let back = eng!("Action::from_str", text.parse::<Action>());
            ctx.check("wire.round_trip", p(16), matches!(&back, Ok(b) if b == a), || format!("printed action {:?} parses back to {:?}", text, back.as_ref().map(|x| x.to_string()).map_err(|e| e.to_string())));
        }
        let before = decode_board(eng!("piece_board", self.gs.piece_board()));
        let side_before = self.side_of_engine();
        let step_before = if self.gs.is_play_phase() { eng!("current_step", self.gs.current_step()) } else { 0 };
        let preview = eng!("trapped_animal_for_action", self.gs.trapped_animal_for_action(a));
        let child = eng!("take_action", self.gs.take_action(a));
        let after = decode_board(eng!("piece_board", child.piece_board()));
        ctx.check("panic_free.apply", p(19), true, String::new);
        ctx.nontrivial(p(16), {
            let mut f = Fp::new();
            f.str(&text);
            f.finish()
        });

        // ---- C13 (and C02): what was really removed
        if let (Ok(b0), Ok(b1), Some(Act::Step(q, d))) = (&before, &after, act) {
            if let (Some(t), Some(pc)) = (q.step(d), b0[q.0 as usize]) {
                if b0[t.0 as usize].is_none() {
                    let mut shifted = *b0;
                    shifted[q.0 as usize] = None;
                    shifted[t.0 as usize] = Some(pc);
                    let removed: Vec<Capture> = (0..64u8).filter_map(|i| match (shifted[i as usize], b1[i as usize]) {
                        (Some((s, k)), None) => Some((Sq(i), s, k)),
                        _ => None,
                    }).collect();
                    let other_change = (0..64usize).any(|i| shifted[i] != b1[i] && b1[i].is_some());
                    ctx.check("step.only_removals", p(2), !other_change, || format!("{}: a piece appeared or changed besides the moved one", text));
                    ctx.check("capture.at_most_one", p(13) | p(2), removed.len() <= 1, || format!("{} removed {} pieces", text, removed.len()));
                    let got = preview.map(|(sq, pc, gold)| (sq.to_string(), kind_of(pc), gold));
                    let want = removed.first().map(|(sq, s, k)| (sq.name(), *k, *s == Side::Gold));
                    ctx.check("capture.preview", p(13), got == want, || format!("{}: preview {:?} but applying removes {:?}", text, got, want));
                    if let Some((sq, s, k)) = removed.first() {
                        let cause = if *sq == t { if pc.0 == side_before { "stepped_in" } else { "displaced_in" } } else { "supporter_left" };
                        ctx.stats.inc(&format!("capture.{}.{}.{}", sq.name(), if *s == Side::Gold { "gold" } else { "silver" }, cause));
                        let _ = k;
                        let mut f = Fp::new();
                        f.bytes(&board_key(b0));
                        f.str(&text);
                        ctx.nontrivial(p(13), f.finish());
                    }
                    if q.is_trap() || t.is_trap() || q.neighbours().any(|n| n.is_trap()) || t.neighbours().any(|n| n.is_trap()) {
                        let mut f = Fp::new();
                        f.bytes(&board_key(b0));
                        f.str(&text);
                        ctx.nontrivial(p(2), f.finish());
                    }
                    if pc.0 != side_before {
                        ctx.stats.inc(if matches!(self.m.pending, Pending::Pull(vac, pk) if vac == t && pc.1 < pk) { "pulls" } else { "pushes" });
                    }
                }
            }
        } else if preview.is_some() {
            ctx.check("capture.preview", p(13), false, || format!("{}: a capture is previewed for an action that is not a step", text));
        }
        // ---- C02: conservation; a pass leaves the board unchanged
        if let (Ok(b0), Ok(b1)) = (&before, &after) {
            if matches!(a, Action::Pass) {
                ctx.check("pass.board_unchanged", p(2), b0 == b1, || "a pass changed the board".into());
            }
            if !matches!(a, Action::Place(_)) {
                let mut grew = false;
                for s in [Side::Gold, Side::Silver] {
                    for k in KINDS {
                        if count(b1, s, k) > count(b0, s, k) {
                            grew = true;
                        }
                    }
                }
                ctx.check("material.never_grows", p(2), !grew, || format!("{}: material increased", text));
            }
        }

        // ---- model
        let mut model_ok = true;
        match act {
            Some(ma) => {
                if let Err(e) = self.m.apply(ma) {
                    model_ok = false;
                    ctx.check("list.offered_action_applicable", if self.m.setup { p(9) } else { p(1) }, false, || format!("offered action {} is impossible: {}", text, e));
                }
            }
            None => model_ok = false,
        }
        // ---- recorder and the turn-end rules (C05), from observed boards only
        let ended = matches!(a, Action::Pass) || (matches!(a, Action::Move(..)) && step_before == 3);
        let was_setup = !self.gs.is_play_phase();
        self.gs = child;
        let side_after = self.side_of_engine();
        if let Ok(b1) = &after {
            if was_setup {
                if self.gs.is_play_phase() {
                    self.rec.begin(b1, side_after);
                    self.lineage_hash = vec![scratch_turn_start_hash(b1, side_after)];
                }
            } else if ended {
                let (unchanged, third) = self.rec.forbidden_end(b1, side_after);
                ctx.check("turn_end.board_changed", p(5), !unchanged, || format!("the turn ended by {} on the board it started from", text));
                ctx.check("turn_end.at_most_second_occurrence", p(5), !third, || format!("the turn ended by {} on a position that had already stood twice at a start of turn", text));
                if self.rec.occurrences(b1, side_after) == 1 {
                    ctx.stats.inc("turn_end.second_occurrence");
                    let mut f = Fp::new();
                    f.bytes(&board_key(b1));
                    f.u8(side_after as u8);
                    ctx.nontrivial(p(5), f.finish());
                }
                self.rec.turn_start(b1, side_after);
                self.lineage_hash.push(scratch_turn_start_hash(b1, side_after));
                ctx.stats.inc("turns");
                ctx.nontrivial(p(3), {
                    let mut f = Fp::new();
                    f.bytes(&board_key(b1));
                    f.u8(step_before as u8);
                    f.u8(matches!(a, Action::Pass) as u8);
                    f.u8(side_after as u8);
                    f.finish()
                });
            } else {
                self.rec.step_made(b1);
            }
        }
        self.cause = match a {
            Action::Pass => Cause::Pass,
            Action::Place(_) => Cause::Place,
            Action::Move(..) => Cause::Step,
        };
        self.acted = true;
        let mut f = Fp::new();
        f.u64(self.path_fp);
        f.str(&text);
        self.path_fp = f.finish();
        ctx.stats.inc(match a {
            Action::Pass => "ops.pass",
            Action::Place(_) => "ops.place",
            Action::Move(..) => "ops.step",
        });
        if !model_ok {
            // force a resync even if the running property does not own the finding
            if ctx.findings.is_empty() {
                ctx.findings.push(Finding { monitor: "model.apply", owners: 0, detail: text.clone() });
            }
        }
        self.settle(ctx)
    }
}

pub fn piece_letter(p: Piece) -> char {
    kind_of(p).letter()
}
