use crate::report::ReplayFile;
pub fn replay(_f: &ReplayFile) -> Result<Option<(String, String)>, String> { Err("todo".into()) }
pub fn cmd_sym(_tier: &str, _seed: u64, _runs: Option<u64>, _workers: usize, _out: &str, _rd: &str) -> i32 { 2 }
