//! C11: four replicas of the referee driven in lockstep from the four images of one position
//! (identity, file mirror, colour swap + rank flip, both).  No reference model is involved: the
//! replicas must simply never diverge.
use crate::bridge::*;
use crate::ctx::*;
use crate::eng;
use crate::game::Failure;
use crate::mix::mix_for;
use crate::model::*;
use crate::report::*;
use crate::rng::{mix as mix_seed, Fp, Rng};
use crate::scenario::*;
use arimaa_engine_step::{Action, GameState};
use serde_json::{json, Value};
use std::collections::BTreeSet;
use std::panic::{catch_unwind, AssertUnwindSafe};
use std::sync::atomic::{AtomicU64, Ordering};
use std::sync::Mutex;
use std::time::Instant;

struct SymFail {
    monitor: &'static str,
    detail: String,
}

fn image_side(s: Side, sym: u8) -> Side {
    if sym & 2 != 0 {
        s.other()
    } else {
        s
    }
}

fn parse_replicas(board: &Board, side: Side, mv: u128) -> Result<Vec<GameState>, String> {
    let mut v = vec![];
    for sym in 0..4u8 {
        let text = diagram(&transform_board(board, sym), image_side(side, sym), mv);
        v.push(eng!("GameState::from_str", text.parse::<GameState>()).map_err(|e| format!("image {} rejected: {}", sym, e))?);
    }
    Ok(v)
}

fn image_action_text(text: &str, sym: u8) -> Option<String> {
    Act::parse(text).map(|a| transform_act(a, sym).text())
}

/// compare replica `sym` with the image of replica 0; returns the offered list of replica 0
fn compare(reps: &[GameState], evals: &mut u64) -> Result<Vec<Action>, SymFail> {
    let va0 = eng!("valid_actions", reps[0].valid_actions());
    let base: BTreeSet<String> = strs(&va0).into_iter().collect();
    let t0 = outcome_of(&eng!("is_terminal", reps[0].is_terminal()));
    for sym in 1..4u8 {
        *evals += 1;
        let got: BTreeSet<String> = strs(&eng!("valid_actions", reps[sym as usize].valid_actions())).into_iter().collect();
        let want: BTreeSet<String> = base.iter().filter_map(|s| image_action_text(s, sym)).collect();
        if got != want {
            let only_img: Vec<&String> = got.difference(&want).collect();
            let only_base: Vec<&String> = want.difference(&got).collect();
            return Err(SymFail { monitor: "sym.offered_actions", detail: format!("image {} (1 = file mirror, 2 = colour swap + rank flip, 3 = both): offered only in the image {:?}, image of offered actions missing there {:?}\noriginal:\n{}image:\n{}", sym, only_img, only_base, reps[0], reps[sym as usize]) });
        }
        let ts = outcome_of(&eng!("is_terminal", reps[sym as usize].is_terminal()));
        let want_t = match (t0, sym & 2 != 0) {
            (None, _) => None,
            (Some(x), false) => Some(x),
            (Some(Outcome::GoldWin), true) => Some(Outcome::SilverWin),
            (Some(Outcome::SilverWin), true) => Some(Outcome::GoldWin),
        };
        if ts != want_t {
            return Err(SymFail { monitor: "sym.result", detail: format!("image {}: result {:?}, image of the original's result {:?}\noriginal:\n{}image:\n{}", sym, ts, want_t, reps[0], reps[sym as usize]) });
        }
    }
    Ok(va0)
}

fn apply_all(reps: &mut [GameState], a: &Action, evals: &mut u64) -> Result<(), SymFail> {
    let text = a.to_string();
    let cap0 = eng!("trapped_animal_for_action", reps[0].trapped_animal_for_action(a));
    let mut images = vec![];
    for sym in 0..4u8 {
        let t = image_action_text(&text, sym).ok_or(SymFail { monitor: "sym.action_text", detail: text.clone() })?;
        let ta: Action = eng!("Action::from_str", t.parse::<Action>()).map_err(|e| SymFail { monitor: "sym.action_text", detail: format!("{}: {}", t, e) })?;
        *evals += 1;
        let want = cap0.map(|(sq, pc, g)| (sq_from_engine(&sq).map(|s| transform_sq(s, sym).name()).unwrap_or_default(), kind_of(pc), if sym & 2 != 0 { !g } else { g }));
        let got = eng!("trapped_animal_for_action", reps[sym as usize].trapped_animal_for_action(&ta)).map(|(sq, pc, g)| (sq.to_string(), kind_of(pc), g));
        if want != got {
            return Err(SymFail { monitor: "sym.capture", detail: format!("image {}: capture preview of {} is {:?}, image of the original's {:?}", sym, t, got, want) });
        }
        images.push(ta);
    }
    for sym in (0..4usize).rev() {
        reps[sym] = eng!("take_action", reps[sym].take_action(&images[sym]));
    }
    Ok(())
}

/// executes a symmetric run; ops: action texts in replica-0 coordinates and "!restart"
thread_local! { static CUTS: std::cell::RefCell<Option<Vec<(usize, String)>>> = const { std::cell::RefCell::new(None) }; }

fn execute_sym(start: &str, ops_in: Option<&[String]>, rng: Option<&mut Rng>, cap: usize, restart_rate: f64, trace: &mut Vec<String>, evals: &mut u64, distinct: &mut FpSet) -> Result<(), SymFail> {
    let (board, side, mv) = parse_diagram(start).ok_or(SymFail { monitor: "sym.start", detail: "bad start diagram".into() })?;
    let mut reps = parse_replicas(&board, side, mv).map_err(|e| SymFail { monitor: "sym.start", detail: e })?;
    // a start position that is its own image under some symmetry exercises nothing for it
    if (1..4u8).any(|s| transform_board(&board, s) != board || image_side(side, s) != side) {
        let mut f = Fp::new();
        f.str(start);
        distinct.insert(f.finish());
    }
    let mut rng = rng;
    let mut seen: Vec<[u8; 64]> = vec![];
    let mut i = 0usize;
    loop {
        if reps[0].is_play_phase() && reps[0].current_step() == 0 {
            CUTS.with(|c| {
                if let Some(v) = c.borrow_mut().as_mut() {
                    v.push((trace.len(), reps[0].to_string()));
                }
            });
        }
        let va = compare(&reps, evals)?;
        if eng!("is_terminal", reps[0].is_terminal()).is_some() || va.is_empty() {
            return Ok(());
        }
        let op: String = match (&ops_in, &mut rng) {
            (Some(ops), _) => {
                if i >= ops.len() {
                    return Ok(());
                }
                ops[i].clone()
            }
            (None, Some(rng)) => {
                if i >= cap {
                    return Ok(());
                }
                let restart = rng.chance(restart_rate);
                let fan = rng.chance(0.04);
                let mut k = rng.below(va.len());
                let shuffle = rng.chance(0.6);
                let r2 = rng.next();
                if fan && !trace.last().map_or(false, |l| l == "?fan") {
                    "?fan".to_string()
                } else if restart {
                    "!restart".to_string()
                } else {
                    if shuffle {
                        let mut back = vec![];
                        for (j, c) in va.iter().enumerate() {
                            if let Action::Move(..) = c {
                                if let Ok(b) = decode_board(eng!("take_action", reps[0].take_action(c)).piece_board()) {
                                    if seen.contains(&board_key(&b)) {
                                        back.push(j);
                                    }
                                }
                            }
                        }
                        if !back.is_empty() {
                            k = back[(r2 % back.len() as u64) as usize];
                        }
                    }
                    va[k].to_string()
                }
            }
            _ => return Ok(()),
        };
        i += 1;
        trace.push(op.clone());
        if op == "!restart" {
            let b = decode_board(reps[0].piece_board()).map_err(|e| SymFail { monitor: "sym.decode", detail: e })?;
            let s = if reps[0].is_p1_turn_to_move() { Side::Gold } else { Side::Silver };
            reps = parse_replicas(&b, s, reps[0].move_number() as u128).map_err(|e| SymFail { monitor: "sym.restart", detail: e })?;
            continue;
        }
        if op == "?fan" {
            // every child of this state, in all four replicas: offered sets and results must correspond
            for a in &va {
                let text = a.to_string();
                let mut kids: Vec<GameState> = vec![];
                for sym in 0..4u8 {
                    let t = image_action_text(&text, sym).ok_or(SymFail { monitor: "sym.action_text", detail: text.clone() })?;
                    let ta: Action = eng!("Action::from_str", t.parse::<Action>()).map_err(|e| SymFail { monitor: "sym.action_text", detail: format!("{}: {}", t, e) })?;
                    kids.push(eng!("take_action", reps[sym as usize].take_action(&ta)));
                }
                compare(&kids, evals).map_err(|mut f| {
                    f.detail = format!("[child {}] {}", text, f.detail);
                    f
                })?;
            }
            continue;
        }
        let a = va.iter().find(|a| a.to_string() == op).ok_or(SymFail { monitor: "sym.invalid_op", detail: format!("{} is not offered", op) })?;
        if let Ok(b) = decode_board(reps[0].piece_board()) {
            seen.push(board_key(&b));
            if seen.len() > 10 {
                seen.remove(0);
            }
        }
        apply_all(&mut reps, a, evals)?;
    }
}

fn guarded(start: &str, ops_in: Option<&[String]>, rng: Option<&mut Rng>, cap: usize, restart_rate: f64, trace: &mut Vec<String>, evals: &mut u64, distinct: &mut FpSet) -> Result<Option<SymFail>, String> {
    crumb_take();
    set_quiet(true);
    let r = catch_unwind(AssertUnwindSafe(|| execute_sym(start, ops_in, rng, cap, restart_rate, trace, evals, distinct)));
    set_quiet(false);
    match r {
        Ok(Ok(())) => Ok(None),
        Ok(Err(f)) if f.monitor == "sym.invalid_op" && ops_in.is_some() => Err(f.detail),
        Ok(Err(f)) => Ok(Some(f)),
        Err(_) => {
            let msg = last_panic_take().unwrap_or_default();
            match crumb_take() {
                // an engine panic is C19's business; the symmetric run just ends
                Some(_) => Ok(None),
                None => Err(format!("harness panic: {}", msg)),
            }
        }
    }
}

pub fn replay(f: &ReplayFile) -> Result<Option<(String, String)>, String> {
    let start = match f.start() {
        Start::Diagram(t) => t,
        Start::Initial => return Err("symmetric runs start from a diagram".into()),
    };
    let ops = f.ops();
    let mut trace = vec![];
    let mut evals = 0;
    let mut d = FpSet::default();
    match guarded(&start, Some(&ops), None, 0, 0.0, &mut trace, &mut evals, &mut d) {
        Ok(Some(fl)) => Ok(Some((fl.monitor.to_string(), fl.detail))),
        Ok(None) => Ok(None),
        // an operation that is not offered means this candidate is not a run at all
        Err(_) => Ok(None),
    }
}

fn minimise_sym(start: &str, ops: &[String], monitor: &str) -> (String, Vec<String>, String) {
    let mut best_ops = ops.to_vec();
    let mut best_start = start.to_string();
    let mut detail = String::new();
    let mut budget = 1500;
    let mut test = |s: &str, o: &[String], budget: &mut i32| -> Option<(Vec<String>, String)> {
        if *budget <= 0 {
            return None;
        }
        *budget -= 1;
        let mut trace = vec![];
        let mut e = 0;
        let mut d = FpSet::default();
        match guarded(s, Some(o), None, 0, 0.0, &mut trace, &mut e, &mut d) {
            Ok(Some(f)) if f.monitor == monitor => Some((trace, f.detail)),
            _ => None,
        }
    };
    if let Some((t, d)) = test(&best_start, &best_ops, &mut budget) {
        best_ops = t;
        detail = d;
    }
    // cut the prefix: restart from the printed position at the latest turn start that still fails
    CUTS.with(|c| *c.borrow_mut() = Some(vec![]));
    let _ = test(&best_start, &best_ops, &mut budget);
    let mut cuts = CUTS.with(|c| c.borrow_mut().take()).unwrap_or_default();
    cuts.retain(|(i, _)| *i > 0 && *i < best_ops.len());
    cuts.reverse();
    for (n, (i, diag)) in cuts.iter().enumerate() {
        if n >= 40 {
            break;
        }
        let cand_ops: Vec<String> = best_ops[*i..].to_vec();
        if let Some((t, d)) = test(diag, &cand_ops, &mut budget) {
            best_start = diag.clone();
            best_ops = t;
            detail = d;
            break;
        }
    }
    let mut chunk = (best_ops.len() / 2).max(1);
    loop {
        let mut i = 0;
        let mut progress = false;
        while i < best_ops.len() && budget > 0 {
            let end = (i + chunk).min(best_ops.len());
            let mut cand = best_ops[..i].to_vec();
            cand.extend_from_slice(&best_ops[end..]);
            if let Some((t, d)) = test(&best_start, &cand, &mut budget) {
                best_ops = t;
                detail = d;
                progress = true;
            } else {
                i += chunk;
            }
        }
        if budget <= 0 || best_ops.is_empty() {
            break;
        }
        if chunk == 1 {
            if !progress {
                break;
            }
        } else {
            chunk /= 2;
        }
    }
    if let Some((mut board, side, mv)) = parse_diagram(&best_start) {
        let mut changed = true;
        while changed && budget > 0 {
            changed = false;
            for i in 0..64 {
                if board[i].is_none() {
                    continue;
                }
                let saved = board[i];
                board[i] = None;
                if !unsupported_on_traps(&board).is_empty() {
                    board[i] = saved;
                    continue;
                }
                let cand = diagram(&board, side, mv);
                if let Some((t, d)) = test(&cand, &best_ops, &mut budget) {
                    best_start = cand;
                    best_ops = t;
                    detail = d;
                    changed = true;
                } else {
                    board[i] = saved;
                }
            }
        }
    }
    (best_start, best_ops, detail)
}

pub fn cmd_sym(tier: &str, seed: u64, runs_override: Option<u64>, workers: usize, out: &str, replay_dir: &str) -> i32 {
    let runs = runs_override.unwrap_or(if tier == "thorough" { 2_000_000 } else { 150_000 });
    let t0 = Instant::now();
    let wall_cap = if tier == "thorough" { 1500.0 } else { 150.0 };
    let next = AtomicU64::new(0);
    let stop_at = AtomicU64::new(u64::MAX);
    struct Acc {
        evals: u64,
        steps: u64,
        restarts: u64,
        distinct: FpSet,
        fails: Vec<(u64, String, Vec<String>, &'static str, String)>,
        harness: Option<String>,
        samples: Vec<Value>,
        done: u64,
        borrowed: u64,
        unfit: u64,
        truncated: bool,
    }
    let acc = Mutex::new(Acc { evals: 0, steps: 0, restarts: 0, distinct: FpSet::default(), fails: vec![], harness: None, samples: vec![], done: 0, borrowed: 0, unfit: 0, truncated: false });
    let mix = mix_for(11);
    std::thread::scope(|s| {
        for _ in 0..workers.max(1) {
            s.spawn(|| {
                let mut evals = 0u64;
                let mut steps = 0u64;
                let mut restarts = 0u64;
                let mut distinct = FpSet::default();
                let mut fails = vec![];
                let mut harness = None;
                let mut samples = vec![];
                let mut done = 0;
                let mut truncated = false;
                let mut borrowed = 0u64;
                let mut unfit = 0u64;
                let rep_mix = mix_for(5);
                let mut gctx = Ctx::new(0);
                let mut geq = crate::world::EqTable::default();
                loop {
                    let idx = next.fetch_add(1, Ordering::SeqCst);
                    if idx >= runs || idx > stop_at.load(Ordering::SeqCst) {
                        break;
                    }
                    if t0.elapsed().as_secs_f64() > wall_cap {
                        truncated = true;
                        break;
                    }
                    let mut rng = Rng::new(mix_seed(seed ^ 0x5157, idx));
                    if idx % 3 == 2 {
                        // Borrowed game: the main line of a run of the sequential simulator under the
                        // repetition-heavy workload of C05/C06 (shufflers, shuttlers, repeaters, long
                        // caps; no restarts, so the history keeps growing) is re-executed on the four
                        // replicas.  That is where actions withheld by the repetition rules are
                        // frequent, which uniform lockstep play hardly ever reaches.
                        let mut sw = crate::driver::Swarm::draw(&mut rng, &rep_mix, false);
                        while sw.family == Family::Setup {
                            sw.family = FAMILIES[rng.weighted(&rep_mix.families)];
                        }
                        sw.fan = 0.0;
                        sw.fan2 = 0.0;
                        sw.rt = 0.0;
                        sw.dfs = 0.0;
                        sw.cap = sw.cap.min(600);
                        let fam = sw.family;
                        let gstart = generate(&mut rng, fam);
                        let start = match &gstart {
                            Start::Diagram(t) => t.clone(),
                            Start::Initial => continue,
                        };
                        let mut src = crate::driver::RandomSource::new(rng, sw);
                        let mut gtrace = vec![];
                        gctx.findings.clear();
                        let _ = crate::game::guarded_execute(&mut gctx, &mut geq, &gstart, &mut src, &mut gtrace, idx);
                        let ops: Vec<String> = gtrace.into_iter().filter(|o| !o.starts_with('?') && (!o.starts_with('!') || o == "!restart")).collect();
                        let mut trace = vec![];
                        let r = guarded(&start, Some(&ops), None, 0, 0.0, &mut trace, &mut evals, &mut distinct);
                        done += 1;
                        borrowed += 1;
                        steps += trace.len() as u64;
                        match r {
                            Ok(None) => {}
                            Ok(Some(f)) => {
                                stop_at.fetch_min(idx, Ordering::SeqCst);
                                fails.push((idx, start, trace, f.monitor, f.detail));
                            }
                            // the borrowed line did not fit the replicas (cannot happen with a
                            // deterministic engine): not comparable, not an alarm
                            Err(_) => unfit += 1,
                        }
                        continue;
                    }
                    let fam = loop {
                        let f = FAMILIES[rng.weighted(&mix.families)];
                        if f != Family::Setup {
                            break f;
                        }
                    };
                    let start = match generate(&mut rng, fam) {
                        Start::Diagram(t) => t,
                        Start::Initial => continue,
                    };
                    let cap = *rng.pick(&[30usize, 120, 400]);
                    let restart_rate = *rng.pick(&[0.0, 0.0, 0.02, 0.1]);
                    let mut trace = vec![];
                    let r = guarded(&start, None, Some(&mut rng), cap, restart_rate, &mut trace, &mut evals, &mut distinct);
                    done += 1;
                    steps += trace.len() as u64;
                    restarts += trace.iter().filter(|o| *o == "!restart").count() as u64;
                    if idx < 3 {
                        samples.push(json!({"run": idx, "family": fam.name(), "start": start, "ops_first_60": trace.iter().take(60).cloned().collect::<Vec<_>>(), "ops_total": trace.len()}));
                    }
                    match r {
                        Ok(None) => {}
                        Ok(Some(f)) => {
                            stop_at.fetch_min(idx, Ordering::SeqCst);
                            fails.push((idx, start, trace, f.monitor, f.detail));
                        }
                        Err(m) => {
                            stop_at.fetch_min(idx, Ordering::SeqCst);
                            harness = Some(format!("run {}: {}", idx, m));
                        }
                    }
                }
                let mut g = acc.lock().unwrap();
                g.evals += evals;
                g.steps += steps;
                g.restarts += restarts;
                for x in distinct {
                    g.distinct.insert(x);
                }
                g.fails.extend(fails);
                if g.harness.is_none() {
                    g.harness = harness;
                }
                g.samples.extend(samples);
                g.done += done;
                g.borrowed += borrowed;
                g.unfit += unfit;
                g.truncated |= truncated;
            });
        }
    });
    let mut g = acc.into_inner().unwrap();
    if let Some(h) = &g.harness {
        eprintln!("HARNESS-ERROR: {}", h);
        return 2;
    }
    g.fails.sort_by_key(|f| f.0);
    g.samples.sort_by_key(|v| v["run"].as_u64().unwrap_or(0));
    let mut exit = 0;
    if let Some((idx, start, ops, monitor, detail)) = g.fails.first() {
        let (ms, mo, md) = minimise_sym(start, ops, monitor);
        let f = Failure { run: *idx, prop: 11, monitor: monitor.to_string(), detail: if md.is_empty() { detail.clone() } else { md }, start: Start::Diagram(ms), op_index: mo.len().saturating_sub(1), ops: mo };
        let path = format!("{}/C11-{}-{}.json", replay_dir, seed, idx);
        if let Err(e) = ReplayFile::from_failure(&f, seed, "sym").write(&path) {
            eprintln!("HARNESS-ERROR: {}", e);
            return 2;
        }
        match confirm_in_fresh_process(&path) {
            Ok(true) => {}
            _ => {
                eprintln!("HARNESS-ERROR: replay of {} in a fresh process did not reproduce the violation", path);
                return 2;
            }
        }
        println!("violation: property C11 monitor {} after {} operations (run {}, seed {}): {}", f.monitor, f.ops.len(), idx, seed, f.detail);
        println!("VIOLATION property=C11 replay={}", path);
        exit = 1;
    }
    let wall = t0.elapsed().as_secs_f64();
    let part = json!({
        "part": "symmetry_replicas",
        "evaluations": g.evals,
        "distinct_nontrivial": g.distinct.len(),
        "rule": "four lockstep replicas (identity, file mirror, colour swap + rank flip, both) of seeded games from parsed positions, play phase only (two runs in three choose their own actions, every third re-executes the main line of a sequential run under the repetition-heavy workload of C05/C06); a case = one replica compared with the image of replica 0 (offered set incl. what repetition withholds, result, capture preview); non-trivial = distinct start positions that are not their own image under at least one symmetry",
        "samples": g.samples,
        "runs": g.done,
        "runs_borrowed_from_the_repetition_workload": g.borrowed,
        "borrowed_lines_not_comparable": g.unfit,
        "runs_planned": runs,
        "truncated_by_wall_clock": g.truncated,
        "lockstep_operations": g.steps,
        "faults_injected_and_effective": {"fault.restart_all_replicas": g.restarts},
        "runs_per_hour": if wall > 0.0 { (g.done as f64 / wall * 3600.0) as u64 } else { 0 },
        "wall_s": wall,
        "violations": exit,
        "real_vs_stub": {"real": "four instances of the engine's GameState", "stub": "players, symmetry maps (the only oracle code)"}
    });
    if std::fs::write(out, serde_json::to_string_pretty(&part).unwrap()).is_err() {
        eprintln!("HARNESS-ERROR: cannot write {}", out);
        return 2;
    }
    println!("C11 symmetry part: {} runs, {} lockstep operations, {} comparisons, {} asymmetric starts, {:.1}s", g.done, g.steps, g.evals, g.distinct.len(), wall);
    exit
}
