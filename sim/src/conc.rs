//! Simulated searcher threads under shuttle's schedulers (hooked build only).
//!  * `c18`: 2-4 threads share states of one search tree and expand / query / play out / hand over /
//!    prune them concurrently; afterwards every logged result must equal its sequential
//!    re-execution and every published state must be bit-for-bit what it was when published.
//!  * `c20`: threads hold clones of long histories and release them concurrently; the nested
//!    link-drop depth must stay bounded on every thread in every schedule.
//! The workload itself is drawn from shuttle's RNG, so a persisted schedule replays it exactly.
use crate::bridge::*;
use crate::ctx::{FpSet, FPSET_CAP};
use crate::report::*;
use crate::rng::Fp;
use arimaa_engine_step::{Action, GameState, List, Zobrist};
use serde_json::{json, Value};
use shuttle::rand::RngCore;
use shuttle::sync::{mpsc, Mutex};
use shuttle::thread;
use std::sync::atomic::{AtomicU64, AtomicUsize, Ordering};
use std::sync::Arc;
use std::time::Instant;

const ROOTS: &[&str] = &[
    "2g\n +-----------------+\n8| r r r r r r r r |\n7| h d c e m c d h |\n6|     x     x     |\n5|                 |\n4|                 |\n3|     x     x     |\n2| H D C M E C D H |\n1| R R R R R R R R |\n +-----------------+\n   a b c d e f g h\n",
    "5s\n +-----------------+\n8|                 |\n7|   r   c         |\n6|     x R   x     |\n5|       E   d     |\n4|     h   M       |\n3|     x     r     |\n2|   R     D       |\n1|                 |\n +-----------------+\n   a b c d e f g h\n",
    "9g\n +-----------------+\n8|                 |\n7|         r       |\n6|     x     x     |\n5| r   R           |\n4| R R             |\n3|     x     x     |\n2|                 |\n1|               E |\n +-----------------+\n   a b c d e f g h\n",
];

fn rnd() -> u64 {
    shuttle::rand::thread_rng().next_u64()
}

/// digest of everything observable about a state, including every element of its history list
pub fn full_digest(gs: &GameState) -> u64 {
    let mut f = Fp::new();
    f.str(&gs.to_string());
    f.u64(gs.transposition_hash());
    f.u64(gs.move_number() as u64);
    f.u8(gs.is_p1_turn_to_move() as u8);
    if let Some(pp) = gs.as_play_phase() {
        f.u8(gs.current_step() as u8);
        f.str(&format!("{:?}", pp.push_pull_state()));
        f.u8(pp.piece_trapped_this_turn() as u8);
        for z in pp.hash_history().iter() {
            f.u64(z.board_state_hash());
        }
        f.u64(pp.hash_history().len() as u64);
        for i in 0..=gs.current_step() {
            let pb = gs.piece_board_for_step(i);
            for v in [pb.p1_pieces, pb.all_pieces, pb.elephants, pb.camels, pb.horses, pb.dogs, pb.cats, pb.rabbits] {
                f.u64(v);
            }
        }
    }
    f.finish()
}

/// digest of every query the property lists
pub fn query_digest(gs: &GameState) -> u64 {
    let mut f = Fp::new();
    let va = gs.valid_actions();
    for a in &va {
        f.str(&a.to_string());
        if let Some((sq, p, g)) = gs.trapped_animal_for_action(a) {
            f.str(&format!("{}{:?}{}", sq, p, g));
        }
    }
    for a in gs.valid_actions_no_rep() {
        f.str(&a.to_string());
    }
    f.str(&format!("{:?}", gs.is_terminal()));
    f.str(&format!("{:?}", gs.has_move(gs.piece_board())));
    f.u8(gs.can_pass(true) as u8);
    f.u8(gs.can_pass(false) as u8);
    f.u64(gs.transposition_hash());
    f.u64(full_digest(gs));
    f.finish()
}

fn replay_path(root: &GameState, path: &[Action]) -> GameState {
    let mut s = root.clone();
    for a in path {
        s = s.take_action(a);
    }
    s
}

#[derive(Clone)]
struct Node {
    path: Vec<Action>,
    state: Arc<GameState>,
    digest_at_publication: u64,
    pruned: bool,
}

#[derive(Clone, Debug)]
enum LogOp {
    Expand(usize, u64),          // (choice, digest of child)
    Query(u64),                  // digest of all queries
    Playout(Vec<u64>, u64),      // (choices, digest of final state)
    HandOver(u64),               // digest computed by the receiving thread
}

struct Shared {
    tree: Mutex<Vec<Node>>,
    log: Mutex<Vec<(usize, usize, LogOp)>>, // (thread, node, op)
}

pub struct ExecStats {
    pub executions: AtomicU64,
    pub shared_node_executions: AtomicU64,
    pub ops: AtomicU64,
    pub points: AtomicU64,
    pub switches: AtomicU64,
    pub max_depth: AtomicUsize,
    pub digests: std::sync::Mutex<FpSet>,
    pub shared_digests: std::sync::Mutex<FpSet>,
}
impl ExecStats {
    pub fn new() -> Self {
        ExecStats { executions: AtomicU64::new(0), shared_node_executions: AtomicU64::new(0), ops: AtomicU64::new(0), points: AtomicU64::new(0), switches: AtomicU64::new(0), max_depth: AtomicUsize::new(0), digests: Default::default(), shared_digests: Default::default() }
    }
}

static POOL: std::sync::OnceLock<Vec<GameState>> = std::sync::OnceLock::new();
/// must be called once per process, outside any shuttle execution
pub fn init_pool(seed: u64) {
    POOL.get_or_init(|| {
        verif_seam::set_scheduling(false);
        crate::game::build_state_pool(seed, 96)
    });
}

fn make_root() -> (GameState, Vec<Action>) {
    // most roots come from the pool of states whose expansion consults the repetition history
    if let Some(pool) = POOL.get() {
        if !pool.is_empty() && rnd() % 10 < 6 {
            let n = pool.len() as u64;
            // bias towards the front of the pool (mixed-answer states)
            let i = (rnd() % n).min(rnd() % n) as usize;
            return (pool[i].clone(), vec![]);
        }
    }
    let text = ROOTS[(rnd() % ROOTS.len() as u64) as usize];
    let mut s: GameState = text.parse().expect("root diagram");
    let mut path = vec![];
    // a few private turns so that the history list has several shared links
    let steps = 2 + rnd() % 10;
    for _ in 0..steps {
        if s.is_terminal().is_some() {
            break;
        }
        let va = s.valid_actions();
        if va.is_empty() {
            break;
        }
        let a = va[(rnd() % va.len() as u64) as usize];
        s = s.take_action(&a);
        path.push(a);
    }
    (s, path)
}

/// one shuttle execution of the C18 scenario
pub fn scenario_c18(stats: &Arc<ExecStats>) {
    verif_seam::set_scheduling(true);
    verif_seam::take_schedule_digest();
    let (root, _) = make_root();
    let root = Arc::new(root);
    let shared = Arc::new(Shared { tree: Mutex::new(vec![Node { path: vec![], state: root.clone(), digest_at_publication: full_digest(&root), pruned: false }]), log: Mutex::new(vec![]) });
    let n_threads = 2 + (rnd() % 3) as usize;
    let n_ops = 3 + (rnd() % 8) as usize;
    let mut senders = vec![];
    let mut receivers = vec![];
    for _ in 0..n_threads {
        let (tx, rx) = mpsc::channel::<(usize, GameState)>();
        senders.push(tx);
        receivers.push(Some(rx));
    }
    let mut handles = vec![];
    for t in 0..n_threads {
        let shared = shared.clone();
        let senders: Vec<_> = senders.clone();
        let rx = receivers[t].take().unwrap();
        handles.push(thread::spawn(move || {
            for _ in 0..n_ops {
                // states handed over by other threads: query them here, then drop them here
                while let Ok((node, st)) = rx.try_recv() {
                    let d = query_digest(&st);
                    shared.log.lock().unwrap().push((t, node, LogOp::HandOver(d)));
                    drop(st);
                }
                let (idx, st) = {
                    let tree = shared.tree.lock().unwrap();
                    let live: Vec<usize> = (0..tree.len()).filter(|i| !tree[*i].pruned).collect();
                    // half of the operations hit the shared root itself
                    let idx = if rnd() % 2 == 0 { 0 } else { live[(rnd() % live.len() as u64) as usize] };
                    (idx, tree[idx].state.clone())
                };
                match rnd() % 10 {
                    0..=3 => {
                        if st.is_terminal().is_none() {
                            let va = st.valid_actions();
                            if !va.is_empty() {
                                let c = (rnd() % va.len() as u64) as usize;
                                let child = st.take_action(&va[c]);
                                let d = full_digest(&child);
                                let mut path = { shared.tree.lock().unwrap()[idx].path.clone() };
                                path.push(va[c]);
                                shared.tree.lock().unwrap().push(Node { path, state: Arc::new(child), digest_at_publication: d, pruned: false });
                                shared.log.lock().unwrap().push((t, idx, LogOp::Expand(c, d)));
                            }
                        }
                    }
                    4..=5 => {
                        let d = query_digest(&st);
                        shared.log.lock().unwrap().push((t, idx, LogOp::Query(d)));
                    }
                    6..=7 => {
                        // private playout of a few turns: the list grows and shares its tail
                        let mut s: GameState = (*st).clone();
                        let mut choices = vec![];
                        let len = 1 + rnd() % 8;
                        for _ in 0..len {
                            if s.is_terminal().is_some() {
                                break;
                            }
                            let va = s.valid_actions();
                            if va.is_empty() {
                                break;
                            }
                            let r = rnd();
                            // passes end turns quickly, which is what appends to the history
                            let c = match va.iter().position(|a| matches!(a, Action::Pass)) {
                                Some(p) if r % 3 != 0 => p,
                                _ => (r % va.len() as u64) as usize,
                            };
                            choices.push(c as u64);
                            s = s.take_action(&va[c]);
                        }
                        shared.log.lock().unwrap().push((t, idx, LogOp::Playout(choices, full_digest(&s))));
                    }
                    8 => {
                        let to = (rnd() % senders.len() as u64) as usize;
                        let _ = senders[to].send((idx, (*st).clone()));
                    }
                    _ => {
                        // prune a leaf that is not the root: the last owner may be any thread
                        let mut tree = shared.tree.lock().unwrap();
                        if idx != 0 {
                            tree[idx].pruned = true;
                            let placeholder = tree[0].state.clone();
                            let old = std::mem::replace(&mut tree[idx].state, placeholder);
                            drop(tree);
                            drop(old);
                        }
                    }
                }
                drop(st);
            }
            // drain what is left in the mailbox
            while let Ok((node, st)) = rx.try_recv() {
                let d = query_digest(&st);
                shared.log.lock().unwrap().push((t, node, LogOp::HandOver(d)));
            }
        }));
    }
    drop(senders);
    for h in handles {
        h.join().unwrap();
    }
    // ---- sequential re-execution on a private copy built from the same text and choices
    verif_seam::set_scheduling(false);
    let (digest, points, switches) = verif_seam::take_schedule_digest();
    let tree = shared.tree.lock().unwrap().clone();
    let log = shared.log.lock().unwrap().clone();
    let private_root: GameState = replay_path(&root, &[]);
    let mut touched: std::collections::BTreeMap<usize, std::collections::BTreeSet<usize>> = Default::default();
    for (t, idx, op) in &log {
        touched.entry(*idx).or_default().insert(*t);
        let st = replay_path(&private_root, &tree[*idx].path);
        match op {
            LogOp::Expand(c, d) => {
                let va = st.valid_actions();
                assert!(*c < va.len(), "C18 concurrent.expand_equals_sequential: thread {} expanding node {:?} chose action {} of a list that has only {} entries sequentially", t, tree[*idx].path, c, va.len());
                let child = st.take_action(&va[*c]);
                assert_eq!(full_digest(&child), *d, "C18 concurrent.expand_equals_sequential: thread {} expanding node {:?} with choice {}", t, tree[*idx].path, c);
            }
            LogOp::Query(d) | LogOp::HandOver(d) => {
                assert_eq!(query_digest(&st), *d, "C18 concurrent.query_equals_sequential: thread {} querying node {:?}", t, tree[*idx].path);
            }
            LogOp::Playout(choices, d) => {
                let mut s = st.clone();
                for c in choices {
                    let va = s.valid_actions();
                    assert!((*c as usize) < va.len(), "C18 concurrent.playout_equals_sequential: thread {} from node {:?} chose action {} of a list that has only {} entries sequentially", t, tree[*idx].path, c, va.len());
                    s = s.take_action(&va[*c as usize]);
                }
                assert_eq!(full_digest(&s), *d, "C18 concurrent.playout_equals_sequential: thread {} from node {:?}", t, tree[*idx].path);
            }
        }
    }
    for n in &tree {
        if !n.pruned {
            assert_eq!(full_digest(&n.state), n.digest_at_publication, "C18 concurrent.published_state_unchanged: node {:?}", n.path);
            let rebuilt = replay_path(&private_root, &n.path);
            assert_eq!(full_digest(&rebuilt), n.digest_at_publication, "C18 concurrent.published_equals_sequential: node {:?}", n.path);
        }
    }
    let shared_node = touched.values().any(|s| s.len() >= 2);
    stats.executions.fetch_add(1, Ordering::Relaxed);
    stats.ops.fetch_add(log.len() as u64, Ordering::Relaxed);
    stats.points.fetch_add(points, Ordering::Relaxed);
    stats.switches.fetch_add(switches, Ordering::Relaxed);
    {
        let mut g = stats.digests.lock().unwrap();
        if g.len() < FPSET_CAP {
            g.insert(digest);
        }
    }
    if shared_node {
        stats.shared_node_executions.fetch_add(1, Ordering::Relaxed);
        let mut g = stats.shared_digests.lock().unwrap();
        if g.len() < FPSET_CAP {
            g.insert(digest);
        }
    }
    verif_seam::set_scheduling(true);
}

pub const DROP_DEPTH_BOUND: usize = crate::stack::DROP_DEPTH_BOUND;

/// one shuttle execution of the C20 scenario
pub fn scenario_c20(stats: &Arc<ExecStats>) {
    verif_seam::set_scheduling(false);
    // build a long list and branches of it without scheduling points (fast), then release under the scheduler
    let len = 2500 + (rnd() % 2500) as usize;
    let mut l: List<Zobrist> = List::new();
    let mut branches: Vec<List<Zobrist>> = vec![];
    for i in 0..len {
        l = l.append(Zobrist::initial());
        if rnd() % 400 == 0 || i == len / 2 {
            // an older branch that grows on its own
            let mut b = l.clone();
            for _ in 0..(rnd() % 60) {
                b = b.append(Zobrist::initial());
            }
            branches.push(b);
        }
    }
    let n_threads = 2 + (rnd() % 3) as usize;
    let mut per_thread: Vec<Vec<List<Zobrist>>> = (0..n_threads).map(|_| vec![]).collect();
    for (i, slot) in per_thread.iter_mut().enumerate() {
        slot.push(l.clone());
        if rnd() % 2 == 0 {
            slot.push(l.tail());
        }
        if let Some(b) = branches.get(i % branches.len().max(1)) {
            slot.push(b.clone());
        }
    }
    verif_seam::take_max_drop_depth();
    verif_seam::take_schedule_digest();
    verif_seam::set_scheduling(true);
    let worst = Arc::new(AtomicUsize::new(0));
    let handles: Vec<_> = per_thread.into_iter().map(|mine| {
        let worst = worst.clone();
        thread::spawn(move || {
            for x in mine {
                // a reader walking the list while others release it
                let mut n = 0usize;
                for _ in x.iter().take(3) {
                    n += 1;
                }
                let _ = n;
                drop(x);
            }
            let _ = worst;
        })
    }).collect();
    drop(branches);
    drop(l);
    for h in handles {
        h.join().unwrap();
    }
    verif_seam::set_scheduling(false);
    let d = verif_seam::take_max_drop_depth();
    let (digest, points, switches) = verif_seam::take_schedule_digest();
    stats.max_depth.fetch_max(d, Ordering::Relaxed);
    stats.executions.fetch_add(1, Ordering::Relaxed);
    stats.shared_node_executions.fetch_add(1, Ordering::Relaxed);
    stats.points.fetch_add(points, Ordering::Relaxed);
    stats.switches.fetch_add(switches, Ordering::Relaxed);
    {
        let mut g = stats.digests.lock().unwrap();
        if g.len() < FPSET_CAP {
            g.insert(digest);
        }
    }
    assert!(d <= DROP_DEPTH_BOUND, "C20 stack.concurrent_drop_depth: releasing clones of a {}-link history from {} threads nested {} link drops (bound {})", len, n_threads, d, DROP_DEPTH_BOUND);
    verif_seam::set_scheduling(true);
}

fn scenario_fn(name: &str, stats: Arc<ExecStats>) -> Box<dyn Fn() + Send + Sync + 'static> {
    if name == "c18" {
        Box::new(move || scenario_c18(&stats))
    } else {
        Box::new(move || scenario_c20(&stats))
    }
}

fn config(dir: Option<&str>) -> shuttle::Config {
    let mut cfg = shuttle::Config::new();
    cfg.stack_size = 1 << 20;
    // shuttle's panic hook captures the configuration of the first runner of the process, so
    // schedules are persisted only by `conc solo`, which runs exactly one runner per process
    cfg.failure_persistence = match dir {
        Some(d) => shuttle::FailurePersistence::File(Some(d.into())),
        None => shuttle::FailurePersistence::None,
    };
    cfg.max_steps = shuttle::MaxSteps::FailAfter(5_000_000);
    cfg
}

/// runner `w` of a batch: deterministic in (seed, w, per).  Even runners use the random
/// scheduler, odd ones PCT with depth 2..5.
fn run_runner(f: Box<dyn Fn() + Send + Sync + 'static>, seed: u64, w: usize, per: usize, dir: Option<&str>) -> (bool, String) {
    let wseed = crate::rng::mix(seed ^ 0x5C4ED, w as u64);
    let r = std::panic::catch_unwind(std::panic::AssertUnwindSafe(|| {
        if w % 2 == 0 {
            let sched = shuttle::scheduler::RandomScheduler::new_from_seed(wseed, per);
            shuttle::Runner::new(sched, config(dir)).run(move || f());
        } else {
            let depth = 2 + (w / 2) % 4;
            let sched = shuttle::scheduler::PctScheduler::new_from_seed(wseed, depth, per);
            shuttle::Runner::new(sched, config(dir)).run(move || f());
        }
    }));
    verif_seam::set_scheduling(false);
    let kind = if w % 2 == 0 { "random".to_string() } else { format!("pct{}", 2 + (w / 2) % 4) };
    (r.is_err(), kind)
}

/// `arena conc solo <c18|c20> <seed> <runner> <per> <dir>`: re-run one runner alone so that its
/// failing schedule is persisted unambiguously; exit 1 if it failed
pub fn cmd_solo(name: &str, seed: u64, w: usize, per: usize, dir: &str) -> i32 {
    let _ = std::fs::remove_dir_all(dir);
    let _ = std::fs::create_dir_all(dir);
    init_pool(seed);
    let stats = Arc::new(ExecStats::new());
    crate::ctx::set_quiet(true);
    let (failed, _) = run_runner(scenario_fn(name, stats), seed, w, per, Some(dir));
    if failed {
        1
    } else {
        0
    }
}

/// `arena conc run <c18|c20> ...`
pub fn cmd_run(name: &str, tier: &str, seed: u64, workers: usize, out: &str, replay_dir: &str) -> i32 {
    let t0 = Instant::now();
    let prop = if name == "c18" { "C18" } else { "C20" };
    let total: usize = match (name, tier) {
        ("c18", "thorough") => 1_200_000,
        ("c18", _) => 24_000,
        (_, "thorough") => 24_000,
        _ => 960,
    };
    init_pool(seed);
    let stats = Arc::new(ExecStats::new());
    let workers = workers.max(1);
    let per = total / workers;
    let mut results = vec![];
    std::thread::scope(|sc| {
        let mut hs = vec![];
        for w in 0..workers {
            let stats = stats.clone();
            let dir = format!("{}/shuttle-{}-{}-{}", replay_dir, prop, seed, w);
            hs.push(sc.spawn(move || {
                let f = scenario_fn(name, stats);
                crate::ctx::set_quiet(true);
                let (failed, kind) = run_runner(f, seed, w, per, None);
                crate::ctx::set_quiet(false);
                (w, kind, dir, failed, crate::ctx::last_panic_take())
            }));
        }
        for h in hs {
            results.push(h.join().unwrap());
        }
    });
    let mut exit = 0;
    let mut unreproduced = 0u64;
    for (w, kind, dir, failed, msg) in &results {
        if *failed && exit == 0 {
            let msg = msg.clone().unwrap_or_default();
            // persist the failing schedule by re-running this runner alone in a fresh process
            let solo = std::env::current_exe().ok().and_then(|exe| std::process::Command::new(exe).args(["conc", "solo", name, &seed.to_string(), &w.to_string(), &per.to_string(), dir]).output().ok());
            let solo_failed = solo.map_or(false, |o| o.status.code() == Some(1));
            let sched_file = if solo_failed { std::fs::read_dir(dir).ok().and_then(|mut d| d.next()).and_then(|e| e.ok()).map(|e| e.path().display().to_string()) } else { None };
            let owned = msg.contains(prop);
            match (sched_file, owned) {
                (Some(sf), true) => {
                    let monitor = msg.split_whitespace().nth(1).unwrap_or("concurrent").trim_end_matches(':').to_string();
                    let path = format!("{}/{}-{}-shuttle-{}.json", replay_dir, prop, seed, w);
                    let v = json!({"mode": "shuttle", "property": prop, "monitor": monitor, "detail": msg, "scenario": name, "scheduler": kind, "schedule_file": sf, "seed": seed, "runner": w, "repo_src_hash": repo_hash(), "how_to_replay": "cd /verif && ./run replay <this file>"});
                    if (ReplayFile { v }).write(&path).is_err() {
                        return 2;
                    }
                    println!("violation: property {} under the {} scheduler: {}", prop, kind, msg);
                    println!("VIOLATION property={} replay={}", prop, path);
                    exit = 1;
                }
                (None, true) => {
                    // One of this scenario's own comparisons failed, but the same runner alone in a
                    // fresh process passes: the outcome depended on what the other runners of this
                    // process were doing, i.e. on state the engine shares between independent
                    // executions.  That cannot be replayed from a schedule, so it is not reported
                    // as a violation here; it is recorded, and the preemptive part (Miri, real
                    // threads on one shared state) is left to decide.
                    eprintln!("note: runner {} failed ({}) but passes alone in a fresh process: the engine keeps process-wide state across executions; not replayable from a schedule, left to the Miri part", w, msg);
                    unreproduced += 1;
                }
                _ => {
                    // an engine panic that is not one of this scenario's assertions (C19's business), or no schedule
                    if msg.contains("/repo/src") {
                        eprintln!("note: the engine panicked inside a concurrent run ({}); that is C19's finding, not {}'s", msg, prop);
                    } else {
                        eprintln!("HARNESS-ERROR: shuttle runner {} failed: {}", w, msg);
                        return 2;
                    }
                }
            }
        }
    }
    let wall = t0.elapsed().as_secs_f64();
    let execs = stats.executions.load(Ordering::Relaxed);
    let distinct_shared = stats.shared_digests.lock().unwrap().len();
    let distinct_all = stats.digests.lock().unwrap().len();
    let part: Value = json!({
        "part": format!("shuttle_schedules_{}", name),
        "evaluations": execs,
        "distinct_nontrivial": if name == "c18" { distinct_shared } else { distinct_all },
        "rule": if name == "c18" {
            "each case = one schedule of 2-4 simulated searcher threads x 3-10 operations (expand, query, playout, hand-over, prune) on a shared tree whose root has 2-11 steps of history; every logged result is recomputed sequentially on a private copy and every published state's full digest is re-taken; non-trivial = distinct interleavings (digest of the task-id sequence at the seam's scheduling points) in which at least two threads operated on the same node"
        } else {
            "each case = one schedule of 2-4 threads releasing clones, tails and older branches of one 2500-5000 link history while walking it; the seam's nested link-drop depth must stay <= 2000 (growth criterion); non-trivial = distinct interleavings (digest of the task-id sequence at scheduling points)"
        },
        "samples": [{"scenario": name, "schedulers": results.iter().map(|r| r.1.clone()).collect::<Vec<_>>(), "executions_per_runner": per}],
        "schedules": execs,
        "schedules_with_a_node_touched_by_two_threads": stats.shared_node_executions.load(Ordering::Relaxed),
        "distinct_interleavings": distinct_all,
        "distinct_interleavings_measure": "distinct digests of the sequence of task ids observed at the seam's scheduling points (Arc clone/drop/into_inner, verif_point! sites)",
        "scheduling_points_hit": stats.points.load(Ordering::Relaxed),
        "task_switches_at_scheduling_points": stats.switches.load(Ordering::Relaxed),
        "logged_operations": stats.ops.load(Ordering::Relaxed),
        "max_nested_link_drops": stats.max_depth.load(Ordering::Relaxed),
        "runner_failures_not_reproduced_alone": unreproduced,
        "faults_injected_and_effective": {"fault.last_owner_release_on_arbitrary_thread": execs},
        "schedules_per_hour": if wall > 0.0 { (execs as f64 / wall * 3600.0) as u64 } else { 0 },
        "wall_s": wall,
        "violations": exit,
        "real_vs_stub": {"real": "engine built with the guard (list links through the seam's wrapper around std::sync::Arc; scheduling points inside take_action, valid_actions, has_move, pass, move_piece, place, List::append, Iter::next)", "stub": "searcher threads, shared tree, OS scheduler (shuttle random and PCT)"}
    });
    if std::fs::write(out, serde_json::to_string_pretty(&part).unwrap()).is_err() {
        return 2;
    }
    println!("{} shuttle part ({}): {} schedules, {} distinct interleavings, {} with a shared node, max nested drops {}, {:.1}s", prop, name, execs, distinct_all, distinct_shared, stats.max_depth.load(Ordering::Relaxed), wall);
    let _ = decode_board;
    exit
}

/// replay a persisted schedule: exit 1 if the scenario fails again
pub fn cmd_replay(path: &str) -> i32 {
    let f = match ReplayFile::read(path) {
        Ok(f) => f,
        Err(e) => {
            eprintln!("HARNESS-ERROR: {}", e);
            return 2;
        }
    };
    let name = f.v["scenario"].as_str().unwrap_or("c18").to_string();
    let sched = f.v["schedule_file"].as_str().unwrap_or("").to_string();
    let prop = f.v["property"].as_str().unwrap_or("C18").to_string();
    init_pool(f.v["seed"].as_u64().unwrap_or(1));
    let stats = Arc::new(ExecStats::new());
    let func = scenario_fn(&name, stats);
    let r = std::panic::catch_unwind(std::panic::AssertUnwindSafe(|| {
        // not shuttle::replay_from_file: it uses the default 32 KiB task stacks
        let scheduler = shuttle::scheduler::ReplayScheduler::new_from_file(&sched).expect("schedule file");
        shuttle::Runner::new(scheduler, config(None)).run(move || func());
    }));
    verif_seam::set_scheduling(false);
    match r {
        Err(_) => {
            let msg = crate::ctx::last_panic_take().unwrap_or_default();
            // only the scenario's own assertions count; a schedule that does not fit the program
            // any more (shuttle: "schedule ended early", "expected context switch", ...) is not a
            // reproduction
            if msg.contains(&format!("{} ", prop)) {
                println!("reproduced: {}", msg);
                println!("VIOLATION property={} replay={}", prop, path);
                1
            } else {
                println!("not reproduced: the recorded schedule does not fit this tree ({})", msg);
                0
            }
        }
        Ok(()) => {
            println!("not reproduced: the schedule of {} runs clean on this tree", path);
            0
        }
    }
}
