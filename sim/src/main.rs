//! `arena` — deterministic simulator for arimaa_engine_step (see /verif/DESIGN.md).
mod bridge;
#[cfg(feature = "shuttle")]
mod conc;
mod ctx;
mod driver;
mod game;
mod mix;
mod model;
mod report;
mod rng;
mod scenario;
mod stack;
mod sym;
mod textfaults;
mod world;

use std::collections::BTreeMap;

fn args_map(args: &[String]) -> BTreeMap<String, String> {
    let mut m = BTreeMap::new();
    let mut i = 0;
    while i < args.len() {
        if let Some(k) = args[i].strip_prefix("--") {
            let v = args.get(i + 1).cloned().unwrap_or_default();
            m.insert(k.to_string(), v);
            i += 2;
        } else {
            i += 1;
        }
    }
    m
}

fn main() {
    ctx::install_panic_hook();
    let args: Vec<String> = std::env::args().collect();
    if args.len() < 2 {
        eprintln!("usage: arena game|replay|sym|textfaults|wirefaults|stack|merge ...");
        std::process::exit(2);
    }
    let a = args_map(&args[2..]);
    let get = |k: &str, d: &str| a.get(k).cloned().unwrap_or_else(|| d.to_string());
    let seed: u64 = get("seed", "1").parse().unwrap_or(1);
    let workers: usize = get("workers", "16").parse().unwrap_or(16);
    let tier = get("tier", "quick");
    let out = get("out", "/verif/evidence/parts/part.json");
    let replay_dir = get("replay-dir", "/verif/replays");
    let known = report::KnownFindings::load(&get("known", "/verif/known_findings.json"));
    let code = match args[1].as_str() {
        "game" => {
            let prop = ctx::parse_prop(&get("prop", "")).expect("--prop Cxx");
            let runs = a.get("runs").and_then(|r| r.parse().ok());
            game::cmd_game(prop, &tier, seed, runs, workers, &out, &replay_dir, a.get("digests").cloned(), &known)
        }
        "replay" => report::cmd_replay(&args[2]),
        "sym" => sym::cmd_sym(&tier, seed, a.get("runs").and_then(|r| r.parse().ok()), workers, &out, &replay_dir),
        "textfaults" => textfaults::cmd_textfaults(&tier, seed, workers, &out, &replay_dir),
        "wirefaults" => textfaults::cmd_wirefaults(&tier, seed, workers, &out, &replay_dir),
        "stack" => stack::cmd(&args[2..], &tier, seed, &out, &replay_dir),
        "merge" => report::cmd_merge(&args[2..]),
        #[cfg(feature = "shuttle")]
        "conc" => match args.get(2).map(|s| s.as_str()) {
            Some("run") => conc::cmd_run(&args[3], &tier, seed, workers, &out, &replay_dir),
            Some("replay") => conc::cmd_replay(&args[3]),
            Some("solo") => conc::cmd_solo(&args[3], args[4].parse().unwrap_or(1), args[5].parse().unwrap_or(0), args[6].parse().unwrap_or(1), &args[7]),
            _ => 2,
        },
        other => {
            eprintln!("unknown command {}", other);
            2
        }
    };
    std::process::exit(code);
}
