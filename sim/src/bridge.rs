//! Conversions between the engine's public observables and the model's types.  The bit <->
//! square mapping assumed here is the one C10 states: bit i = file i mod 8, rank 8 - i div 8.
use crate::model::*;
use arimaa_engine_step::{Action, GameState, Piece, PieceBoardState, PushPullState, Terminal};

pub const PIECES: [(Piece, Kind); 6] = [
    (Piece::Rabbit, Kind::R),
    (Piece::Cat, Kind::C),
    (Piece::Dog, Kind::D),
    (Piece::Horse, Kind::H),
    (Piece::Camel, Kind::M),
    (Piece::Elephant, Kind::E),
];

pub fn kind_of(p: Piece) -> Kind {
    match p {
        Piece::Rabbit => Kind::R,
        Piece::Cat => Kind::C,
        Piece::Dog => Kind::D,
        Piece::Horse => Kind::H,
        Piece::Camel => Kind::M,
        Piece::Elephant => Kind::E,
    }
}
pub fn piece_of(k: Kind) -> Piece {
    PIECES.iter().find(|(_, kk)| *kk == k).unwrap().0
}
pub fn bit_to_sq(i: u8) -> Sq {
    Sq::new(i % 8, 8 - i / 8)
}
pub fn sq_to_bit(s: Sq) -> u8 {
    (8 - s.rank()) * 8 + s.file()
}

/// decode a piece board through `bits_for_piece`; Err if two pieces share a square
pub fn decode_board(pb: &PieceBoardState) -> Result<Board, String> {
    let mut b: Board = EMPTY;
    for (p, k) in PIECES {
        for (gold, side) in [(true, Side::Gold), (false, Side::Silver)] {
            let bits = pb.bits_for_piece(p, gold);
            let mut rest = bits;
            while rest != 0 {
                let i = rest.trailing_zeros() as u8;
                rest &= rest - 1;
                let sq = bit_to_sq(i);
                if b[sq.0 as usize].is_some() {
                    return Err(format!("two pieces on {}", sq.name()));
                }
                b[sq.0 as usize] = Some((side, k));
            }
        }
    }
    Ok(b)
}

pub fn sq_from_engine(s: &arimaa_engine_step::Square) -> Option<Sq> {
    Sq::from_name(&s.to_string())
}

pub fn eng_pending(gs: &GameState) -> Result<Pending, String> {
    Ok(match gs.as_play_phase().map(|p| p.push_pull_state()) {
        None | Some(PushPullState::None) => Pending::None,
        Some(PushPullState::PossiblePull(s, p)) => {
            Pending::Pull(sq_from_engine(&s).ok_or_else(|| format!("bad square {}", s))?, kind_of(p))
        }
        Some(PushPullState::MustCompletePush(s, p)) => {
            Pending::Push(sq_from_engine(&s).ok_or_else(|| format!("bad square {}", s))?, kind_of(p))
        }
    })
}

pub fn outcome_of(t: &Option<Terminal>) -> Option<Outcome> {
    match t {
        None => None,
        Some(Terminal::GoldWin) => Some(Outcome::GoldWin),
        Some(Terminal::SilverWin) => Some(Outcome::SilverWin),
    }
}

pub fn strs(v: &[Action]) -> Vec<String> {
    v.iter().map(|a| a.to_string()).collect()
}

/// Rebuild a model from what the engine reports (used to resynchronise after a disagreement
/// that belongs to another property's check).
pub fn model_from_engine(gs: &GameState) -> Result<Model, String> {
    let board = decode_board(gs.piece_board())?;
    let side = if gs.is_p1_turn_to_move() { Side::Gold } else { Side::Silver };
    let mut m = Model { board, side, move_no: gs.move_number() as u128, setup: !gs.is_play_phase(), boards_this_turn: vec![], pending: Pending::None };
    if gs.is_play_phase() {
        let k = gs.current_step();
        if k > 3 {
            return Err(format!("step counter {}", k));
        }
        for i in 0..k {
            m.boards_this_turn.push(decode_board(gs.piece_board_for_step(i))?);
        }
        m.pending = eng_pending(gs)?;
    }
    Ok(m)
}
