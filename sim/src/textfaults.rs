use crate::report::ReplayFile;
pub fn replay(_f: &ReplayFile) -> Result<Option<(String, String)>, String> { Err("todo".into()) }
pub fn cmd_textfaults(_tier: &str, _seed: u64, _workers: usize, _out: &str, _rd: &str) -> i32 { 2 }
pub fn cmd_wirefaults(_tier: &str, _seed: u64, _workers: usize, _out: &str, _rd: &str) -> i32 { 2 }
