//! C15 / C16 fault enumeration: the durable text of a position and the wire text of an action
//! are corrupted in every single way of a fault catalogue (and in seeded combinations) and handed
//! to the real parsers; nothing may unwind, and an action/square parse may succeed only for the
//! printed form of its result.
use crate::bridge::*;
use crate::ctx::*;
use crate::eng;
use crate::report::*;
use crate::rng::{mix as mix_seed, Fp, Rng};
use crate::scenario::*;
use arimaa_engine_step::{Action, Direction, GameState, Piece, Square};
use serde_json::{json, Value};
use std::panic::{catch_unwind, AssertUnwindSafe};
use std::sync::atomic::{AtomicU64, Ordering};
use std::sync::Mutex;
use std::time::Instant;

pub const ALPHABET: &[char] = &[
    '0', '1', '2', '3', '4', '5', '6', '7', '8', '9', 'a', 'b', 'c', 'd', 'e', 'f', 'g', 'h', 'i', 'n', 's', 'w', 'p', 'r', 'm', 'R', 'C', 'D', 'H', 'M', 'E', 'A', 'B', 'G', 'I', 'N', 'P', '`', '@', '|', '+', '-', 'x', ' ', '\n', '\r',
    '\t', '\0', 'é', 'š', 'ı', '٣', '１', '😀',
];

/// characters outside the small alphabet whose case mapping, numeric value, width or byte length
/// is unusual; substituted into the header and the first rows of every base text
pub const EXOTIC: &[char] = &[
    'ǅ', 'ǈ', 'ß', 'ẞ', 'ﬁ', 'İ', 'ſ', 'K', 'Å', '²', '³', '¹', '½', '¼', 'Ⅷ', 'ⅷ', 'Ⅰ', '①', '⑧', '۸', '८', '൮', '８', '２', 'ｇ', 'ｓ', 'ｗ', 'ｂ', 'Ｒ', 'ｒ', 'Ｅ', 'ｅ', 'ｘ', '｜', '│', '┃', '¦', 'ǀ', '∣', '＋',
    '－', '–', '—', '\u{00A0}', '\u{2007}', '\u{2028}', '\u{2029}', '\u{0085}', '\u{000B}', '\u{000C}', '\u{200B}', '\u{200D}', '\u{FEFF}', '\u{202E}', '\u{0301}', '\u{0338}', '\u{1F1E6}', '\u{E0067}', '\u{10FFFF}', '\u{FFFD}', '\u{7F}', '\u{1B}', 'ρ', 'Ρ', 'е', 'Е', 'с', 'С', 'м', 'М', 'һ', 'ԁ', 'ｍ', 'Ｍ', 'ℝ', 'ℯ', '𝐑', '𝐫', '🄴',
];

#[derive(Clone, Copy, PartialEq, Eq, Debug)]
pub enum Kind {
    GameState,
    Action,
    Square,
    Piece,
    Direction,
}
impl Kind {
    pub fn name(self) -> &'static str {
        match self {
            Kind::GameState => "gamestate",
            Kind::Action => "action",
            Kind::Square => "square",
            Kind::Piece => "piece",
            Kind::Direction => "direction",
        }
    }
    pub fn from_name(s: &str) -> Option<Kind> {
        [Kind::GameState, Kind::Action, Kind::Square, Kind::Piece, Kind::Direction].into_iter().find(|k| k.name() == s)
    }
}

/// outcome of handing `text` to parser `kind`: Ok(None) fine, Ok(Some((monitor, detail))) violation
pub fn judge(kind: Kind, text: &str) -> Option<(&'static str, String)> {
    crumb_take();
    let was_quiet = set_quiet(true);
    let r = catch_unwind(AssertUnwindSafe(|| -> Option<(&'static str, String)> {
        match kind {
            Kind::GameState => {
                let _ = eng!("GameState::from_str", text.parse::<GameState>());
                None
            }
            Kind::Action => match eng!("Action::from_str", text.parse::<Action>()) {
                Ok(a) => {
                    let printed = a.to_string();
                    let upper_piece = matches!(a, Action::Place(_)) && text.chars().count() == 1 && text.to_ascii_lowercase() == printed;
                    if printed == text || upper_piece {
                        None
                    } else {
                        Some(("parse.accepts_only_printed_form", format!("Action::from_str({:?}) = Ok({}), whose printed form is {:?}", text, printed, printed)))
                    }
                }
                Err(_) => None,
            },
            Kind::Square => match eng!("Square::from_str", text.parse::<Square>()) {
                Ok(s) => {
                    let printed = s.to_string();
                    if printed == text {
                        None
                    } else {
                        Some(("parse.accepts_only_printed_form", format!("Square::from_str({:?}) = Ok({}), whose printed form is {:?}", text, printed, printed)))
                    }
                }
                Err(_) => None,
            },
            Kind::Piece => match eng!("Piece::from_str", text.parse::<Piece>()) {
                Ok(p) => {
                    let printed = p.to_string();
                    if printed == text || (text.chars().count() == 1 && text.to_ascii_lowercase() == printed) {
                        None
                    } else {
                        Some(("parse.accepts_only_printed_form", format!("Piece::from_str({:?}) = Ok({})", text, printed)))
                    }
                }
                Err(_) => None,
            },
            Kind::Direction => match eng!("Direction::from_str", text.parse::<Direction>()) {
                Ok(d) => {
                    let printed = d.to_string();
                    if printed == text {
                        None
                    } else {
                        Some(("parse.accepts_only_printed_form", format!("Direction::from_str({:?}) = Ok({})", text, printed)))
                    }
                }
                Err(_) => None,
            },
        }
    }));
    set_quiet(was_quiet);
    match r {
        Ok(v) => v,
        Err(_) => {
            let msg = last_panic_take().unwrap_or_default();
            crumb_take();
            Some(("parse.no_panic", format!("{}::from_str({:?}) panicked: {}", kind.name(), text, msg)))
        }
    }
}

pub fn replay(f: &ReplayFile) -> Result<Option<(String, String)>, String> {
    let kind = Kind::from_name(f.v["kind"].as_str().unwrap_or("")).ok_or("replay file has no parser kind")?;
    let text = f.v["text"].as_str().ok_or("replay file has no text")?;
    Ok(judge(kind, text).map(|(m, d)| (m.to_string(), d)))
}

pub fn replay_codec() -> Result<Option<(String, String)>, String> {
    let mut e = 0;
    set_quiet(true);
    let r = catch_unwind(AssertUnwindSafe(|| codec_table(&mut e)));
    set_quiet(false);
    Ok(match r {
        Ok(v) => v.map(|(m, d)| (m.to_string(), d)),
        Err(_) => Some(("codec.no_panic".to_string(), last_panic_take().unwrap_or_default())),
    })
}

/// shrink the text while the same monitor still fires
fn minimise_text(kind: Kind, text: &str, monitor: &str) -> String {
    let mut best: Vec<char> = text.chars().collect();
    let fails = |cs: &[char]| -> bool {
        let s: String = cs.iter().collect();
        matches!(judge(kind, &s), Some((m, _)) if m == monitor)
    };
    let mut budget = 3000;
    let mut chunk = (best.len() / 2).max(1);
    loop {
        let mut i = 0;
        let mut progress = false;
        while i < best.len() && budget > 0 {
            budget -= 1;
            let end = (i + chunk).min(best.len());
            let mut cand = best[..i].to_vec();
            cand.extend_from_slice(&best[end..]);
            if fails(&cand) {
                best = cand;
                progress = true;
            } else {
                i += chunk;
            }
        }
        if budget <= 0 || best.is_empty() {
            break;
        }
        if chunk == 1 {
            if !progress {
                break;
            }
        } else {
            chunk /= 2;
        }
    }
    best.into_iter().collect()
}

struct TextFail {
    index: u64,
    kind: Kind,
    text: String,
    monitor: &'static str,
    detail: String,
    fault: String,
}

fn report(prop: u32, seed: u64, f: &TextFail, replay_dir: &str) -> i32 {
    let min = minimise_text(f.kind, &f.text, f.monitor);
    let (monitor, detail) = match judge(f.kind, &min) {
        Some((m, d)) => (m, d),
        None => (f.monitor, f.detail.clone()),
    };
    let path = format!("{}/{}-{}-{}.json", replay_dir, prop_name(prop), seed, f.index);
    let v = json!({
        "mode": "text", "property": prop_name(prop), "monitor": monitor, "detail": detail, "kind": f.kind.name(), "text": min,
        "original_text": f.text, "fault": f.fault, "seed": seed, "case_index": f.index, "repo_src_hash": repo_hash(),
        "how_to_replay": "cd /verif && ./run replay <this file>",
    });
    if let Err(e) = (ReplayFile { v }).write(&path) {
        eprintln!("HARNESS-ERROR: {}", e);
        return 2;
    }
    match confirm_in_fresh_process(&path) {
        Ok(true) => {}
        _ => {
            eprintln!("HARNESS-ERROR: replay of {} in a fresh process did not reproduce the violation", path);
            return 2;
        }
    }
    println!("violation: property {} monitor {} ({}): {}", prop_name(prop), monitor, f.fault, detail);
    println!("VIOLATION property={} replay={}", prop_name(prop), path);
    1
}

// ---------------------------------------------------------------------------------- C15

/// base texts: printed diagrams of states taken from seeded games, with header variants
fn base_texts(seed: u64, n: usize) -> Vec<String> {
    let mut out = vec![];
    let mut i = 0u64;
    while out.len() < n {
        let mut rng = Rng::new(mix_seed(seed ^ 0xC15, i));
        i += 1;
        let fam = FAMILIES[rng.below(FAMILIES.len())];
        let mut gs = match generate(&mut rng, fam) {
            Start::Initial => GameState::initial(),
            Start::Diagram(t) => match t.parse::<GameState>() {
                Ok(g) => g,
                Err(_) => continue,
            },
        };
        let k = rng.below(40);
        for _ in 0..k {
            let va = gs.valid_actions();
            if va.is_empty() || gs.is_terminal().is_some() {
                break;
            }
            gs = gs.take_action(&va[rng.below(va.len())]);
        }
        let mut text = gs.to_string();
        // header variants: other side letters, long digit runs (the parser takes any \d+)
        match rng.below(6) {
            0 => text = text.replacen(['g', 's'], if rng.chance(0.5) { "w" } else { "b" }, 1),
            1 => {
                let digits = 1 + rng.below(19);
                let num: String = (0..digits).map(|j| if j == 0 { (b'1' + rng.below(9) as u8) as char } else { (b'0' + rng.below(10) as u8) as char }).collect();
                let nl = text.find('\n').unwrap_or(0);
                let letter = text[..nl].chars().last().unwrap_or('g');
                text = format!("{}{}{}", num, letter, &text[nl..]);
            }
            2 => text = format!("  {}", text),
            _ => {}
        }
        out.push(text);
    }
    out
}

/// every single fault of the catalogue applied to `base`; `other` is a second snapshot for splices
fn single_faults(base: &str, other: &str, f: &mut dyn FnMut(String, String)) {
    let chars: Vec<char> = base.chars().collect();
    let bytes = base.as_bytes();
    // torn write: truncation at each byte (lossy at a char boundary inside a multi-byte char)
    for cut in 0..bytes.len() {
        f(String::from_utf8_lossy(&bytes[..cut]).into_owned(), format!("truncate@{}", cut));
    }
    // single bit flips
    for i in 0..bytes.len() {
        for bit in 0..8 {
            let mut b = bytes.to_vec();
            b[i] ^= 1 << bit;
            f(String::from_utf8_lossy(&b).into_owned(), format!("bitflip@{}.{}", i, bit));
        }
    }
    // substitution and insertion of every alphabet character at every position
    for i in 0..chars.len() {
        for c in ALPHABET {
            if chars[i] != *c {
                let mut v = chars.clone();
                v[i] = *c;
                f(v.into_iter().collect(), format!("substitute@{}={:?}", i, c));
            }
        }
    }
    for i in 0..=chars.len() {
        for c in ALPHABET {
            let mut v = chars.clone();
            v.insert(i, *c);
            f(v.into_iter().collect(), format!("insert@{}={:?}", i, c));
        }
    }
    // exotic characters in the header and the first two rows (substitution and insertion)
    let head_len = base.split_inclusive('\n').take(4).map(|l| l.chars().count()).sum::<usize>().min(chars.len());
    for i in 0..head_len {
        for c in EXOTIC {
            let mut v = chars.clone();
            v[i] = *c;
            f(v.into_iter().collect(), format!("substitute_exotic@{}={:?}", i, c));
        }
    }
    for i in 0..=head_len.min(12) {
        for c in EXOTIC {
            let mut v = chars.clone();
            v.insert(i, *c);
            f(v.into_iter().collect(), format!("insert_exotic@{}={:?}", i, c));
        }
    }
    // an extra column holding a piece, at every position of every line
    for i in 0..=chars.len() {
        for tok in [" R", " r", "E "] {
            let mut v: Vec<char> = chars[..i].to_vec();
            v.extend(tok.chars());
            v.extend_from_slice(&chars[i..]);
            f(v.into_iter().collect(), format!("insert_token@{}={:?}", i, tok));
        }
    }
    // lost / duplicated / reordered lines
    let lines: Vec<&str> = base.split_inclusive('\n').collect();
    for i in 0..lines.len() {
        let mut v = lines.clone();
        v.remove(i);
        f(v.concat(), format!("lose_line@{}", i));
        let mut v = lines.clone();
        v.insert(i, lines[i]);
        f(v.concat(), format!("duplicate_line@{}", i));
        if i + 1 < lines.len() {
            let mut v = lines.clone();
            v.swap(i, i + 1);
            f(v.concat(), format!("swap_lines@{}", i));
        }
        // the same line written many times (extra rows)
        let mut v = lines.clone();
        for _ in 0..9 {
            v.insert(i, lines[i]);
        }
        f(v.concat(), format!("duplicate_line_x9@{}", i));
    }
    // the move number replaced by boundary numerals (with and without leading zeros)
    {
        let head = lines.first().copied().unwrap_or("");
        let digits_end = head.find(|c: char| !c.is_ascii_digit() && c != ' ').unwrap_or(0);
        let lead = head.len() - head.trim_start().len();
        if digits_end > lead {
            let rest_of_text: String = base[digits_end..].to_string();
            let prefix = &head[..lead];
            const NUMS: &[&str] = &[
                "0", "1", "9", "10", "255", "256", "65535", "65536", "4294967295", "4294967296", "9223372036854775807", "9223372036854775808",
                "18446744073709551614", "18446744073709551615", "18446744073709551616", "18446744073709551617", "18446744073709551625",
                "19999999999999999999", "20000000000000000000", "99999999999999999999", "100000000000000000000", "10000000000000000000",
                "340282366920938463463374607431768211455", "340282366920938463463374607431768211456", "999999999999999999999999999999999999999999",
                "-1", "+5", "1e3", "0x10", "1_000", "１２", "٣٤",
            ];
            for n in NUMS {
                for zeros in [0usize, 1, 5, 300] {
                    f(format!("{}{}{}{}", prefix, "0".repeat(zeros), n, rest_of_text), format!("header_number@{}+{}zeros", n, zeros));
                }
            }
        }
    }
    // amplification: the same line, an empty row, a separator or padding written many times
    // (a retry loop that appends instead of overwriting; log lines or a table around the diagram)
    for i in 0..lines.len() {
        for times in [40usize, 300] {
            let mut v = lines.clone();
            for _ in 0..times {
                v.insert(i, lines[i]);
            }
            f(v.concat(), format!("repeat_line_x{}@{}", times, i));
        }
        for (pad, name) in [(" ", "spaces"), ("|", "bars"), ("x ", "trap_marks"), ("| ", "empty_cells")] {
            for times in [70usize, 600] {
                let l = lines[i].trim_end_matches('\n');
                let padded = format!("{}{}{}", l, pad.repeat(times), if lines[i].ends_with('\n') { "\n" } else { "" });
                let mut v = lines.clone();
                v[i] = &padded;
                f(v.concat(), format!("pad_line_{}_x{}@{}", name, times, i));
                let padded2 = format!("{}{}", pad.repeat(times), lines[i]);
                let mut v = lines.clone();
                v[i] = &padded2;
                f(v.concat(), format!("prefix_line_{}_x{}@{}", name, times, i));
            }
        }
    }
    for times in [10usize, 40, 300] {
        f(format!("{}{}", base, "|                 |\n".repeat(times)), format!("append_blank_rows_x{}", times));
        f(format!("{}{}", "|                 |\n".repeat(times), base), format!("prepend_blank_rows_x{}", times));
        f(format!("{}{}", base, "| a | b | c |\n".repeat(times)), format!("append_table_rows_x{}", times));
    }
    // duplicated spans in the header (grows the digit run)
    let hl = lines.first().map_or(0, |l| l.chars().count());
    for i in 0..hl {
        for len in 1..=8usize {
            if i + len <= hl {
                let mut v: Vec<char> = chars[..i + len].to_vec();
                v.extend_from_slice(&chars[i..i + len]);
                v.extend_from_slice(&chars[i + len..]);
                f(v.into_iter().collect(), format!("duplicate_span@{}+{}", i, len));
                // and repeated until the number cannot fit any integer type
                let mut v: Vec<char> = chars[..i].to_vec();
                for _ in 0..6 {
                    v.extend_from_slice(&chars[i..i + len]);
                }
                v.extend_from_slice(&chars[i + len..]);
                f(v.into_iter().collect(), format!("repeat_span_x6@{}+{}", i, len));
            }
        }
    }
    // stale + new: first k lines of this snapshot, rest of another
    let olines: Vec<&str> = other.split_inclusive('\n').collect();
    for k in 0..=lines.len() {
        let mut v: Vec<&str> = lines[..k].to_vec();
        if k < olines.len() {
            v.extend_from_slice(&olines[k..]);
        }
        f(v.concat(), format!("splice@{}", k));
    }
    // concatenation of two snapshots (an append that was meant to overwrite)
    f(format!("{}{}", base, other), "append_second_snapshot".into());
}

fn mutate_once(rng: &mut Rng, chars: &mut Vec<char>) -> String {
    if chars.is_empty() {
        chars.push(*rng.pick(ALPHABET));
        return "insert".into();
    }
    let i = rng.below(chars.len());
    match rng.below(8) {
        0 => {
            chars.truncate(i);
            "truncate".into()
        }
        1 => {
            chars[i] = *rng.pick(ALPHABET);
            "substitute".into()
        }
        2 => {
            chars.insert(i, *rng.pick(ALPHABET));
            "insert".into()
        }
        3 => {
            chars.remove(i);
            "delete".into()
        }
        4 => {
            let len = 1 + rng.below(8);
            let end = (i + len).min(chars.len());
            let span: Vec<char> = chars[i..end].to_vec();
            let times = 1 + rng.below(5);
            for _ in 0..times {
                for (k, c) in span.iter().enumerate() {
                    chars.insert(i + k, *c);
                }
            }
            "duplicate_span".into()
        }
        5 => {
            // duplicate a whole line
            let s: String = chars.iter().collect();
            let lines: Vec<&str> = s.split_inclusive('\n').collect();
            let li = rng.below(lines.len());
            let mut v = lines.clone();
            let times = 1 + rng.below(9);
            for _ in 0..times {
                v.insert(li, lines[li]);
            }
            *chars = v.concat().chars().collect();
            "duplicate_line".into()
        }
        6 => {
            if i + 1 < chars.len() {
                chars.swap(i, i + 1);
            }
            "transpose".into()
        }
        _ => {
            let mut b: Vec<u8> = chars.iter().collect::<String>().into_bytes();
            if !b.is_empty() {
                let j = rng.below(b.len());
                b[j] ^= 1 << rng.below(8);
            }
            *chars = String::from_utf8_lossy(&b).chars().collect();
            "bitflip".into()
        }
    }
}

pub fn cmd_textfaults(tier: &str, seed: u64, workers: usize, out: &str, replay_dir: &str) -> i32 {
    let t0 = Instant::now();
    let (n_base, n_multi) = if tier == "thorough" { (1500usize, 3_000_000u64) } else { (96usize, 150_000u64) };
    let bases = base_texts(seed, n_base);
    let next = AtomicU64::new(0);
    struct Acc {
        evals: u64,
        accepted: u64,
        distinct: FpSet,
        kinds: std::collections::BTreeMap<String, u64>,
        fails: Vec<TextFail>,
        samples: Vec<Value>,
    }
    let acc = Mutex::new(Acc { evals: 0, accepted: 0, distinct: FpSet::default(), kinds: Default::default(), fails: vec![], samples: vec![] });
    let total_jobs = n_base as u64 + n_multi.div_ceil(10_000);
    std::thread::scope(|s| {
        for _ in 0..workers.max(1) {
            s.spawn(|| {
                let mut evals = 0u64;
                let mut accepted = 0u64;
                let mut distinct = FpSet::default();
                let mut kinds: std::collections::BTreeMap<String, u64> = Default::default();
                let mut fails: Vec<TextFail> = vec![];
                let mut samples = vec![];
                loop {
                    let job = next.fetch_add(1, Ordering::SeqCst);
                    if job >= total_jobs {
                        break;
                    }
                    let mut case = 0u64;
                    let mut handle = |text: String, fault: String, base: &str, fails: &mut Vec<TextFail>| {
                        case += 1;
                        evals += 1;
                        let kind_name = fault.split('@').next().unwrap_or("").to_string();
                        *kinds.entry(format!("fault.{}", kind_name)).or_insert(0) += 1;
                        let ok = eng!("GameState::from_str", std::panic::catch_unwind(AssertUnwindSafe(|| text.parse::<GameState>().is_ok())));
                        // judge() repeats the parse under the silent hook only when needed
                        let verdict = match ok {
                            Ok(acc) => {
                                if acc {
                                    accepted += 1;
                                }
                                let header_changed = text.split('|').next() != base.split('|').next();
                                let fields_changed = text.matches('|').count() != base.matches('|').count();
                                if (acc || header_changed || fields_changed) && distinct.len() < FPSET_CAP {
                                    let mut f = Fp::new();
                                    f.str(&text);
                                    distinct.insert(f.finish());
                                }
                                None
                            }
                            Err(_) => judge(Kind::GameState, &text),
                        };
                        if let Some((m, d)) = verdict {
                            if fails.len() < 4 {
                                fails.push(TextFail { index: job * 1_000_000 + case, kind: Kind::GameState, text, monitor: m, detail: d, fault });
                            }
                        }
                    };
                    set_quiet(true);
                    if (job as usize) < n_base {
                        let base = &bases[job as usize];
                        let other = &bases[(job as usize + 1) % bases.len()];
                        if job < 2 {
                            samples.push(json!({"base_text": base, "fault_catalogue": "truncate@byte, bitflip@byte.bit, substitute@char=alphabet, insert@pos=alphabet, insert_token (extra column with a piece), lose/duplicate/swap/x9 line, duplicate/repeat span in header, splice with another snapshot, append second snapshot"}));
                        }
                        single_faults(base, other, &mut |t, fault| handle(t, fault, base, &mut fails));
                    } else {
                        let chunk = job - n_base as u64;
                        for k in 0..10_000u64 {
                            let idx = chunk * 10_000 + k;
                            if idx >= n_multi {
                                break;
                            }
                            let mut rng = Rng::new(mix_seed(seed ^ 0xFA17, idx));
                            let base = &bases[rng.below(bases.len())];
                            let mut chars: Vec<char> = base.chars().collect();
                            let n = 2 + rng.below(5);
                            let mut names = vec![];
                            for _ in 0..n {
                                names.push(mutate_once(&mut rng, &mut chars));
                            }
                            let text: String = chars.into_iter().collect();
                            if idx < 2 {
                                samples.push(json!({"multi_fault_sequence": names, "corrupted_text": text}));
                            }
                            handle(text, format!("multi@{}", names.join("+")), base, &mut fails);
                        }
                    }
                    set_quiet(false);
                }
                let mut g = acc.lock().unwrap();
                g.evals += evals;
                g.accepted += accepted;
                for x in distinct {
                    g.distinct.insert(x);
                }
                for (k, v) in kinds {
                    *g.kinds.entry(k).or_insert(0) += v;
                }
                g.fails.extend(fails);
                g.samples.extend(samples);
            });
        }
    });
    let mut g = acc.into_inner().unwrap();
    g.fails.sort_by_key(|f| f.index);
    let mut exit = 0;
    if let Some(f) = g.fails.first() {
        exit = report(15, seed, f, replay_dir);
        if exit == 2 {
            return 2;
        }
    }
    let wall = t0.elapsed().as_secs_f64();
    let part = json!({
        "part": "storage_faults",
        "evaluations": g.evals,
        "distinct_nontrivial": g.distinct.len(),
        "rule": "base texts = printed diagrams of states from seeded games (all families, header variants: w/b letters, 1-19 digit move numbers, leading blanks); every single fault of the catalogue is enumerated for every base text, then seeded sequences of 2-6 faults; a case = one corrupted text handed to GameState::from_str under catch_unwind; non-trivial = distinct corrupted texts that the parser accepted or whose header or number of '|' fields differs from the base text",
        "samples": g.samples,
        "base_texts": n_base,
        "single_faults_exhaustive_per_base_text": true,
        "multi_fault_sequences": n_multi,
        "accepted_by_parser": g.accepted,
        "faults_injected_and_effective": g.kinds,
        "alphabet": ALPHABET.iter().map(|c| c.to_string()).collect::<Vec<_>>(),
        "wall_s": wall,
        "violations": if exit == 1 { 1 } else { 0 },
        "real_vs_stub": {"real": "<GameState as FromStr>::from_str", "stub": "durable store (in-memory string), fault injector"}
    });
    if std::fs::write(out, serde_json::to_string_pretty(&part).unwrap()).is_err() {
        eprintln!("HARNESS-ERROR: cannot write {}", out);
        return 2;
    }
    println!("C15 storage-fault part: {} corrupted texts ({} accepted), {} distinct non-trivial, {:.1}s", g.evals, g.accepted, g.distinct.len(), wall);
    exit
}

// ---------------------------------------------------------------------------------- C16

fn all_messages() -> Vec<String> {
    let mut v = vec!["p".to_string()];
    for p in Piece::ALL {
        v.push(Action::Place(p).to_string());
    }
    for i in 0..64u8 {
        for d in Direction::ALL {
            v.push(Action::Move(Square::from_index(i), d).to_string());
        }
    }
    v
}

/// the finite codec table, enumerated completely
fn codec_table(evals: &mut u64) -> Option<(&'static str, String)> {
    let bad = |m: &'static str, d: String| Some((m, d));
    let mut n_actions = 0;
    let mut acts = vec![Action::Pass];
    for p in Piece::ALL {
        acts.push(Action::Place(p));
    }
    for i in 0..64u8 {
        for d in Direction::ALL {
            acts.push(Action::Move(Square::from_index(i), d));
        }
    }
    for a in &acts {
        *evals += 1;
        n_actions += 1;
        let t = a.to_string();
        match t.parse::<Action>() {
            Ok(b) if b == *a => {}
            other => return bad("codec.action_round_trip", format!("{:?} prints as {:?} which parses to {:?}", a, t, other.map(|x| x.to_string()).map_err(|e| e.to_string()))),
        }
    }
    if n_actions != 263 {
        return bad("codec.action_count", format!("{} actions", n_actions));
    }
    for i in 0..64u8 {
        *evals += 1;
        let s = Square::from_index(i);
        let file = (b'a' + i % 8) as char;
        let rank = 8 - i / 8;
        let want = format!("{}{}", file, rank);
        if s.to_string() != want {
            return bad("codec.square_print", format!("index {} prints as {}, expected {}", i, s, want));
        }
        match want.parse::<Square>() {
            Ok(b) if b == s => {}
            other => return bad("codec.square_round_trip", format!("{} parses to {:?}", want, other.map(|x| x.to_string()).map_err(|e| e.to_string()))),
        }
        if s.index() != i as usize || s.as_bit_board() != 1u64 << i || Square::from_bit_board(1u64 << i) != s || Square::new(file, rank as usize) != s || s.column_char() != file || s.row() != rank {
            return bad("codec.square_conversions", format!("conversions of {} are not mutually inverse / not index {}", want, i));
        }
    }
    for p in Piece::ALL {
        *evals += 1;
        let t = p.to_string();
        if !matches!(t.parse::<Piece>(), Ok(q) if q == p) || !matches!(t.to_uppercase().parse::<Piece>(), Ok(q) if q == p) {
            return bad("codec.piece_round_trip", format!("piece {:?} prints as {:?}", p, t));
        }
    }
    for d in Direction::ALL {
        *evals += 1;
        let t = d.to_string();
        if !matches!(t.parse::<Direction>(), Ok(q) if q == d) {
            return bad("codec.direction_round_trip", format!("direction {:?} prints as {:?}", d, t));
        }
    }
    None
}

fn nth_string(mut idx: u64, len: usize) -> String {
    let n = ALPHABET.len() as u64;
    let mut s = String::new();
    for _ in 0..len {
        s.push(ALPHABET[(idx % n) as usize]);
        idx /= n;
    }
    s
}

pub fn cmd_wirefaults(tier: &str, seed: u64, workers: usize, out: &str, replay_dir: &str) -> i32 {
    let t0 = Instant::now();
    let thorough = tier == "thorough";
    let mut table_evals = 0u64;
    crumb_take();
    set_quiet(true);
    let table = catch_unwind(AssertUnwindSafe(|| codec_table(&mut table_evals)));
    set_quiet(false);
    let table_fail = match table {
        Ok(v) => v,
        Err(_) => Some(("codec.no_panic", format!("codec table panicked: {}", last_panic_take().unwrap_or_default()))),
    };
    let msgs = all_messages();
    let n = ALPHABET.len() as u64;
    // job list: (kind of job, parameter)
    //  A: all strings of length L (chunked)   B: <=2 faults on each message   C: concatenations   D: seeded longer strings
    let max_len = if thorough { 4 } else { 3 };
    let mut jobs: Vec<(u8, u64, u64)> = vec![];
    for len in 0..=max_len {
        let total = n.pow(len as u32);
        let mut start = 0;
        while start < total {
            jobs.push((b'A', len as u64, start));
            start += 200_000;
        }
    }
    for mi in 0..msgs.len() as u64 {
        jobs.push((b'B', mi, 0));
    }
    for mi in 0..msgs.len() as u64 {
        jobs.push((b'C', mi, 0));
    }
    // L: long messages (amplification): a multi-byte character at every byte offset up to 130 behind
    // ASCII padding, messages repeated up to 100 times, kilobyte-long runs
    jobs.push((b'L', 0, 0));
    // E: every Unicode scalar value substituted into each position of representative messages
    for chunk in 0..(0x110000u64 / 0x8000) {
        jobs.push((b'E', chunk, 0));
    }
    let n_seeded: u64 = if thorough { 40_000_000 } else { 2_000_000 };
    let mut st = 0;
    while st < n_seeded {
        jobs.push((b'D', st, 0));
        st += 100_000;
    }
    let next = AtomicU64::new(0);
    struct Acc {
        evals: u64,
        accepted: u64,
        distinct: FpSet,
        fails: Vec<TextFail>,
        kinds: std::collections::BTreeMap<String, u64>,
    }
    let acc = Mutex::new(Acc { evals: 0, accepted: 0, distinct: FpSet::default(), fails: vec![], kinds: Default::default() });
    std::thread::scope(|s| {
        for _ in 0..workers.max(1) {
            s.spawn(|| {
                let mut evals = 0u64;
                let mut accepted = 0u64;
                let mut distinct = FpSet::default();
                let mut fails: Vec<TextFail> = vec![];
                let mut kinds: std::collections::BTreeMap<String, u64> = Default::default();
                set_quiet(true);
                loop {
                    let j = next.fetch_add(1, Ordering::SeqCst);
                    if j as usize >= jobs.len() {
                        break;
                    }
                    let (jk, a, b) = jobs[j as usize];
                    let mut case = 0u64;
                    let mut check = |text: &str, fault: &str, fails: &mut Vec<TextFail>| {
                        for kind in [Kind::Action, Kind::Square, Kind::Piece, Kind::Direction] {
                            case += 1;
                            evals += 1;
                            // fast path: parse directly; only a panic or an acceptance needs judging
                            let r = catch_unwind(AssertUnwindSafe(|| match kind {
                                Kind::Action => text.parse::<Action>().is_ok(),
                                Kind::Square => text.parse::<Square>().is_ok(),
                                Kind::Piece => text.parse::<Piece>().is_ok(),
                                _ => text.parse::<Direction>().is_ok(),
                            }));
                            let verdict = match r {
                                Ok(false) => None,
                                Ok(true) => {
                                    accepted += 1;
                                    judge(kind, text)
                                }
                                Err(_) => judge(kind, text),
                            };
                            if !matches!(r, Ok(false)) || (!fault.starts_with("every_scalar") && text.chars().any(|c| !c.is_ascii())) {
                                if distinct.len() < FPSET_CAP {
                                    let mut f = Fp::new();
                                    f.u8(kind as u8);
                                    f.str(text);
                                    distinct.insert(f.finish());
                                }
                            }
                            if let Some((m, d)) = verdict {
                                if fails.len() < 4 {
                                    fails.push(TextFail { index: j * 10_000_000 + case, kind, text: text.to_string(), monitor: m, detail: d, fault: fault.to_string() });
                                }
                            }
                        }
                    };
                    match jk {
                        b'A' => {
                            let total = n.pow(a as u32);
                            let end = (b + 200_000).min(total);
                            *kinds.entry(format!("fault.all_strings_len{}", a)).or_insert(0) += end - b;
                            for idx in b..end {
                                let s = nth_string(idx, a as usize);
                                check(&s, "all_strings", &mut fails);
                            }
                        }
                        b'B' => {
                            // every single fault and every pair of faults on one well-formed message
                            let base: Vec<char> = msgs[a as usize].chars().collect();
                            let mut level1: Vec<Vec<char>> = vec![];
                            let mutate = |v: &Vec<char>, out: &mut Vec<Vec<char>>| {
                                for i in 0..=v.len() {
                                    for c in ALPHABET {
                                        let mut w = v.clone();
                                        w.insert(i, *c);
                                        out.push(w);
                                    }
                                }
                                for i in 0..v.len() {
                                    for c in ALPHABET {
                                        if v[i] != *c {
                                            let mut w = v.clone();
                                            w[i] = *c;
                                            out.push(w);
                                        }
                                    }
                                    let mut w = v.clone();
                                    w.remove(i);
                                    out.push(w);
                                    let mut w = v.clone();
                                    w.insert(i, v[i]);
                                    out.push(w);
                                    if i + 1 < v.len() {
                                        let mut w = v.clone();
                                        w.swap(i, i + 1);
                                        out.push(w);
                                    }
                                    let mut w = v.clone();
                                    w[i] = if v[i].is_uppercase() { v[i].to_ascii_lowercase() } else { v[i].to_ascii_uppercase() };
                                    out.push(w);
                                    out.push(v[..i].to_vec());
                                }
                            };
                            mutate(&base, &mut level1);
                            *kinds.entry("fault.single_on_message".into()).or_insert(0) += level1.len() as u64;
                            let mut level2: Vec<Vec<char>> = vec![];
                            for v in &level1 {
                                let s: String = v.iter().collect();
                                check(&s, "single_fault_on_message", &mut fails);
                                // pairs: a second fault on top (only for the first 64 messages in quick, all in thorough)
                                if thorough || a % 4 == seed % 4 {
                                    level2.clear();
                                    mutate(v, &mut level2);
                                    *kinds.entry("fault.pair_on_message".into()).or_insert(0) += level2.len() as u64;
                                    for w in &level2 {
                                        let s2: String = w.iter().collect();
                                        check(&s2, "two_faults_on_message", &mut fails);
                                    }
                                }
                            }
                        }
                        b'L' => {
                            let mut cnt = 0u64;
                            for prefix in ["", "a1n", "p", "R", "zz"] {
                                for pad in ['a', ' ', 'x', '1', 'n'] {
                                    for wide in ['\u{e9}', '\u{20ac}', '\u{1f600}'] {
                                        for tail in ["", "a1n", "\u{e9}\u{e9}"] {
                                            for n in 0..=130usize {
                                                let mut t = String::from(prefix);
                                                for _ in 0..n {
                                                    t.push(pad);
                                                }
                                                t.push(wide);
                                                t.push_str(tail);
                                                check(&t, "long_message_wide_char_at_every_offset", &mut fails);
                                                cnt += 1;
                                            }
                                        }
                                    }
                                }
                            }
                            for m in ["a1n", "p", "h8w", "E", "r", "n", "a1", "\u{e9}"] {
                                for sep in ["", " ", "\n", "\r\n", ","] {
                                    for k in [2usize, 3, 5, 8, 11, 16, 17, 32, 33, 64, 100] {
                                        let t = vec![m; k].join(sep);
                                        check(&t, "long_message_repeated", &mut fails);
                                        cnt += 1;
                                    }
                                }
                            }
                            for c in ['a', '1', ' ', 'p', '\u{e9}', '\u{1f600}', '\0'] {
                                for k in [255usize, 256, 257, 1023, 1024, 4096, 65_536] {
                                    let t: String = std::iter::repeat(c).take(k).collect();
                                    check(&t, "long_message_run", &mut fails);
                                    cnt += 1;
                                }
                            }
                            *kinds.entry("fault.long_messages".into()).or_insert(0) += cnt;
                        }
                        b'E' => {
                            let reps: &[&str] = if thorough { &["a1n", "h8w", "d4e", "e5s", "c3n", "f6w", "a8s", "h1e", "p", "r", "E"] } else { &["a1n", "h8w", "d4e", "e5s", "p", "r"] };
                            let lo = a * 0x8000;
                            let mut cnt = 0u64;
                            for cp in lo..lo + 0x8000 {
                                if let Some(c) = char::from_u32(cp as u32) {
                                    for m in reps {
                                        let base: Vec<char> = m.chars().collect();
                                        for i in 0..base.len() {
                                            if base[i] == c {
                                                continue;
                                            }
                                            let mut v = base.clone();
                                            v[i] = c;
                                            let t: String = v.into_iter().collect();
                                            check(&t, "every_scalar_value_substituted", &mut fails);
                                            cnt += 1;
                                        }
                                    }
                                    // and as a one-character string of its own
                                    let mut one = String::new();
                                    one.push(c);
                                    check(&one, "every_scalar_value_alone", &mut fails);
                                    cnt += 1;
                                }
                            }
                            *kinds.entry("fault.every_unicode_scalar_in_each_position".into()).or_insert(0) += cnt;
                        }
                        b'C' => {
                            *kinds.entry("fault.concatenated_messages".into()).or_insert(0) += msgs.len() as u64;
                            for m2 in &msgs {
                                let s = format!("{}{}", msgs[a as usize], m2);
                                check(&s, "two_messages_concatenated", &mut fails);
                            }
                        }
                        _ => {
                            for idx in a..(a + 100_000).min(n_seeded) {
                                let mut rng = Rng::new(mix_seed(seed ^ 0x316, idx));
                                let len = 4 + rng.below(9);
                                let mut s = String::new();
                                // near-valid bias: start from a message half of the time
                                if rng.chance(0.5) {
                                    s.push_str(&msgs[rng.below(msgs.len())]);
                                }
                                while s.chars().count() < len {
                                    s.push(*rng.pick(ALPHABET));
                                }
                                check(&s, "seeded_long_string", &mut fails);
                            }
                            *kinds.entry("fault.seeded_long_strings".into()).or_insert(0) += (a + 100_000).min(n_seeded) - a;
                        }
                    }
                }
                set_quiet(false);
                let mut g = acc.lock().unwrap();
                g.evals += evals;
                g.accepted += accepted;
                for x in distinct {
                    g.distinct.insert(x);
                }
                g.fails.extend(fails);
                for (k, v) in kinds {
                    *g.kinds.entry(k).or_insert(0) += v;
                }
            });
        }
    });
    let mut g = acc.into_inner().unwrap();
    g.fails.sort_by_key(|f| f.index);
    let mut exit = 0;
    if let Some((m, d)) = table_fail {
        // the codec table has no text to minimise: report it as a text case of the printed value
        let path = format!("{}/C16-{}-codec.json", replay_dir, seed);
        let v = json!({"mode": "codec", "property": "C16", "monitor": m, "detail": d, "seed": seed, "repo_src_hash": repo_hash(), "how_to_replay": "cd /verif && ./run replay <this file>"});
        if (ReplayFile { v }).write(&path).is_err() {
            return 2;
        }
        println!("violation: property C16 monitor {}: {}", m, d);
        println!("VIOLATION property=C16 replay={}", path);
        exit = 1;
    } else if let Some(f) = g.fails.first() {
        exit = report(16, seed, f, replay_dir);
        if exit == 2 {
            return 2;
        }
    }
    let wall = t0.elapsed().as_secs_f64();
    let part = json!({
        "part": "wire_faults_and_codec_table",
        "evaluations": g.evals + table_evals,
        "distinct_nontrivial": g.distinct.len(),
        "rule": "codec table (263 actions, 64 squares, 6 pieces, 4 directions: a finite table enumerated completely, not a simulation); every string of length <= 3 (quick) / <= 4 (thorough) over the alphabet; every single fault on every well-formed message and pairs of faults (a quarter of the messages in quick, all in thorough); every concatenation of two messages; every Unicode scalar value substituted into each position of representative messages and alone; seeded longer strings; each handed to the Action, Square, Piece and Direction parsers under catch_unwind; non-trivial = distinct (parser, string) cases that were accepted, panicked, or contain a non-ASCII character",
        "samples": [
            {"string": "a1n", "parsers": "Action, Square, Piece, Direction"},
            {"string": "aén", "note": "multi-byte character inside a three-character message"},
            {"string": "š1", "note": "U+0161: its low byte equals 'a'"},
            {"string": "A1n", "note": "character below 'a'"}
        ],
        "codec_table_cases": table_evals,
        "exhaustive": false,
        "all_strings_up_to_length": max_len,
        "accepted_by_a_parser": g.accepted,
        "faults_injected_and_effective": g.kinds,
        "alphabet": ALPHABET.iter().map(|c| c.to_string()).collect::<Vec<_>>(),
        "wall_s": wall,
        "violations": if exit == 1 { 1 } else { 0 },
        "real_vs_stub": {"real": "FromStr/Display of Action, Square, Piece, Direction; Square conversions", "stub": "wire (in-memory string), fault injector"}
    });
    if std::fs::write(out, serde_json::to_string_pretty(&part).unwrap()).is_err() {
        eprintln!("HARNESS-ERROR: cannot write {}", out);
        return 2;
    }
    println!("C16 wire-fault part: {} parser calls ({} accepted), {} distinct non-trivial, {:.1}s", g.evals, g.accepted, g.distinct.len(), wall);
    let _ = decode_board;
    exit
}
