//! The only source of randomness in the simulator: SplitMix64, seeded from VERIF_SEED and the
//! run index.  Every choice of a run is drawn from one instance in a fixed order.
#[derive(Clone, Debug)]
pub struct Rng(pub u64);

impl Rng {
    pub fn new(seed: u64) -> Rng {
        Rng(seed)
    }
    pub fn next(&mut self) -> u64 {
        self.0 = self.0.wrapping_add(0x9E3779B97F4A7C15);
        let mut z = self.0;
        z = (z ^ (z >> 30)).wrapping_mul(0xBF58476D1CE4E5B9);
        z = (z ^ (z >> 27)).wrapping_mul(0x94D049BB133111EB);
        z ^ (z >> 31)
    }
    pub fn below(&mut self, n: usize) -> usize {
        debug_assert!(n > 0);
        (self.next() % n as u64) as usize
    }
    pub fn chance(&mut self, p: f64) -> bool {
        if p <= 0.0 {
            // still draw, so that the draw order does not depend on the configuration value
            self.next();
            return false;
        }
        ((self.next() >> 11) as f64 / (1u64 << 53) as f64) < p
    }
    pub fn pick<'a, T>(&mut self, xs: &'a [T]) -> &'a T {
        &xs[self.below(xs.len())]
    }
    /// index drawn with the given integer weights (at least one positive)
    pub fn weighted(&mut self, w: &[u32]) -> usize {
        let total: u64 = w.iter().map(|x| *x as u64).sum();
        let mut r = self.next() % total;
        for (i, x) in w.iter().enumerate() {
            if r < *x as u64 {
                return i;
            }
            r -= *x as u64;
        }
        unreachable!()
    }
}

/// seed of run `idx` under master seed `seed`
pub fn mix(seed: u64, idx: u64) -> u64 {
    let mut r = Rng(seed ^ 0xA5A5_5A5A_DEAD_BEEF);
    let a = r.next();
    let mut r2 = Rng(a ^ idx.wrapping_mul(0x2545F4914F6CDD1D));
    r2.next()
}

/// 64-bit FNV-1a style mixing for fingerprints (fixed, no RandomState anywhere).
#[derive(Clone, Copy)]
pub struct Fp(pub u64);
impl Fp {
    pub fn new() -> Fp {
        Fp(0xcbf29ce484222325)
    }
    pub fn u8(&mut self, b: u8) {
        self.0 = (self.0 ^ b as u64).wrapping_mul(0x100000001b3);
    }
    pub fn u64(&mut self, v: u64) {
        for i in 0..8 {
            self.u8((v >> (8 * i)) as u8);
        }
    }
    pub fn bytes(&mut self, bs: &[u8]) {
        for b in bs {
            self.u8(*b);
        }
        self.u8(0xff);
    }
    pub fn str(&mut self, s: &str) {
        self.bytes(s.as_bytes());
    }
    pub fn finish(self) -> u64 {
        // final avalanche
        let mut z = self.0;
        z = (z ^ (z >> 30)).wrapping_mul(0xBF58476D1CE4E5B9);
        z = (z ^ (z >> 27)).wrapping_mul(0x94D049BB133111EB);
        z ^ (z >> 31)
    }
}
