//! Start positions of simulated games.  Everything is generated in the model's terms and handed
//! to the engine as printed text, so the real parser is part of every run.
use crate::model::*;
use crate::rng::Rng;

#[derive(Clone, Copy, PartialEq, Eq, Debug)]
pub enum Family {
    Setup,
    Random,
    Sparse,
    TrapDense,
    Goal,
    Cage,
    Library,
    Blocked,
    Edge,
    PushPull,
    TrapCluster,
    Motif,
    Mobility,
    Jam,
    Confront,
    Elimination,
}
pub const FAMILIES: [Family; 16] = [Family::Setup, Family::Random, Family::Sparse, Family::TrapDense, Family::Goal, Family::Cage, Family::Library, Family::Blocked, Family::Edge, Family::PushPull, Family::TrapCluster, Family::Motif, Family::Mobility, Family::Jam, Family::Confront, Family::Elimination];
impl Family {
    pub fn name(self) -> &'static str {
        match self {
            Family::Setup => "setup",
            Family::Random => "random",
            Family::Sparse => "sparse",
            Family::TrapDense => "trap_dense",
            Family::Goal => "goal",
            Family::Cage => "cage",
            Family::Library => "library",
            Family::Blocked => "blocked",
            Family::Edge => "edge",
            Family::PushPull => "push_pull",
            Family::TrapCluster => "trap_cluster",
            Family::Motif => "motif",
            Family::Mobility => "mobility",
            Family::Jam => "jam",
            Family::Confront => "confront",
            Family::Elimination => "elimination",
        }
    }
}

#[derive(Clone, Debug, PartialEq)]
pub enum Start {
    Initial,
    Diagram(String),
}

fn place_random(b: &mut Board, rng: &mut Rng, side: Side, k: Kind, filter: impl Fn(Sq) -> bool) -> bool {
    for _ in 0..30 {
        let sq = Sq(rng.below(64) as u8);
        if b[sq.0 as usize].is_none() && filter(sq) {
            b[sq.0 as usize] = Some((side, k));
            return true;
        }
    }
    false
}

/// remove unsupported pieces from traps so that the position is one the rules can produce
pub fn clean_traps(b: &mut Board) {
    for (s, _, _) in unsupported_on_traps(b) {
        b[s.0 as usize] = None;
    }
}

/// move numbers from here on are "at the edge": a run that starts there is cut short (see
/// game.rs), so that the counter (a usize) cannot run over during the run itself
pub const EDGE_MOVE_NUMBER: u128 = (1u128 << 64) - (1u128 << 13);

fn move_number(rng: &mut Rng) -> u128 {
    match rng.below(6) {
        0 => 2,
        1 => 1 + rng.below(200) as u128,
        2 => (rng.next() >> 24) as u128,
        3 => match rng.below(5) {
            0 => (1u128 << 16) - 3 + rng.below(6) as u128,
            1 => (1u128 << 32) - 3 + rng.below(6) as u128,
            2 => (1u128 << 62) - rng.below(1000) as u128,
            3 => (1u128 << 63) - 3 + rng.below(1000) as u128,
            // the largest numbers leave 2^40 increments of headroom: no game gets that long
            _ => (1u128 << 64) - (1u128 << 40) - rng.below(1000) as u128,
        },
        4 => 1,
        _ => 17,
    }
}

pub fn random_board(rng: &mut Rng, density: usize, rabbits_off_goal: bool) -> Board {
    let mut b: Board = EMPTY;
    for side in [Side::Gold, Side::Silver] {
        for k in KINDS {
            let maxn = k.quota();
            let n = match density {
                0 => {
                    if rng.chance(0.3) {
                        1.min(maxn)
                    } else {
                        0
                    }
                }
                1 => rng.below(maxn + 1).min(2),
                2 => rng.below(maxn + 1),
                _ => maxn,
            };
            let n = if k == Kind::R && n == 0 && rng.chance(0.9) { 1 } else { n };
            for _ in 0..n {
                place_random(&mut b, rng, side, k, |sq| {
                    !(rabbits_off_goal && k == Kind::R && ((side == Side::Gold && sq.rank() == 8) || (side == Side::Silver && sq.rank() == 1)))
                });
            }
        }
    }
    clean_traps(&mut b);
    b
}

fn sparse_board(rng: &mut Rng) -> Board {
    let mut b: Board = EMPTY;
    for side in [Side::Gold, Side::Silver] {
        place_random(&mut b, rng, side, Kind::R, |sq| (2..=7).contains(&sq.rank()));
        let extra = rng.below(3);
        for _ in 0..extra {
            let k = *rng.pick(&[Kind::C, Kind::D, Kind::H, Kind::M, Kind::E, Kind::R]);
            if count(&b, side, k) < k.quota() {
                place_random(&mut b, rng, side, k, |sq| (2..=7).contains(&sq.rank()) || k != Kind::R);
            }
        }
    }
    clean_traps(&mut b);
    b
}

fn trap_dense_board(rng: &mut Rng) -> Board {
    let mut b: Board = EMPTY;
    let mut left: BTreeQuota = BTreeQuota::new();
    for (f, r) in TRAPS {
        if !rng.chance(0.8) {
            continue;
        }
        let t = Sq::new(f, r);
        let mut cells: Vec<Sq> = t.neighbours().collect();
        cells.push(t);
        // second ring, so that supporters have their own neighbours
        for n in t.neighbours().collect::<Vec<_>>() {
            for nn in n.neighbours() {
                if !cells.contains(&nn) && rng.chance(0.35) {
                    cells.push(nn);
                }
            }
        }
        for c in cells {
            if b[c.0 as usize].is_some() || !rng.chance(0.55) {
                continue;
            }
            let side = if rng.chance(0.5) { Side::Gold } else { Side::Silver };
            let k = KINDS[rng.weighted(&[4, 2, 2, 2, 1, 1])];
            if k == Kind::R && ((side == Side::Gold && c.rank() == 8) || (side == Side::Silver && c.rank() == 1)) {
                continue;
            }
            if left.take(side, k) {
                b[c.0 as usize] = Some((side, k));
            }
        }
    }
    for side in [Side::Gold, Side::Silver] {
        if count(&b, side, Kind::R) == 0 && left.take(side, Kind::R) {
            place_random(&mut b, rng, side, Kind::R, |sq| (2..=7).contains(&sq.rank()));
        }
        let extra = rng.below(4);
        for _ in 0..extra {
            let k = KINDS[rng.below(6)];
            if left.take(side, k) {
                place_random(&mut b, rng, side, k, |sq| k != Kind::R || (2..=7).contains(&sq.rank()));
            }
        }
    }
    clean_traps(&mut b);
    b
}

struct BTreeQuota {
    used: [[usize; 6]; 2],
}
impl BTreeQuota {
    fn new() -> Self {
        BTreeQuota { used: [[0; 6]; 2] }
    }
    fn take(&mut self, s: Side, k: Kind) -> bool {
        let u = &mut self.used[s as usize][k as usize];
        if *u < k.quota() {
            *u += 1;
            true
        } else {
            false
        }
    }
}

/// positions realising a chosen combination of the win conditions at a start of turn, or one
/// step / one capture away from them
fn goal_board(rng: &mut Rng, to_move: Side) -> Board {
    // all densities, the full board included (a side can lose all rabbits with 24 pieces left)
    let density = rng.below(4);
    let mut b = random_board(rng, density, true);
    let bside = to_move;
    let aside = to_move.other();
    let goal_rank = |s: Side| if s == Side::Gold { 8 } else { 1 };
    let mode = rng.below(10);
    if mode < 6 {
        // direct combination
        let bits = rng.below(16);
        let (a_goal, b_goal, b_none, a_none) = (bits & 1 != 0, bits & 2 != 0, bits & 4 != 0, bits & 8 != 0);
        for (side, none) in [(bside, b_none), (aside, a_none)] {
            if none {
                for c in b.iter_mut() {
                    if *c == Some((side, Kind::R)) {
                        *c = None;
                    }
                }
            }
        }
        for (side, on) in [(aside, a_goal), (bside, b_goal)] {
            if on {
                let f = rng.below(8) as u8;
                let sq = Sq::new(f, goal_rank(side));
                if count(&b, side, Kind::R) >= 8 {
                    // make room in the quota
                    if let Some(c) = b.iter_mut().find(|c| **c == Some((side, Kind::R))) {
                        *c = None;
                    }
                }
                b[sq.0 as usize] = Some((side, Kind::R));
            }
        }
    } else if mode < 8 {
        // a rabbit of either side one step from its goal
        for side in [bside, aside] {
            if rng.chance(0.7) {
                let f = rng.below(8) as u8;
                let r = if side == Side::Gold { 7 } else { 2 };
                let sq = Sq::new(f, r);
                if count(&b, side, Kind::R) >= 8 {
                    if let Some(c) = b.iter_mut().find(|c| **c == Some((side, Kind::R))) {
                        *c = None;
                    }
                }
                b[sq.0 as usize] = Some((side, Kind::R));
                let ahead = Sq::new(f, goal_rank(side));
                if rng.chance(0.7) {
                    b[ahead.0 as usize] = None;
                }
            }
        }
    } else {
        // last rabbit of a side stands next to a trap or on it with a single supporter
        for side in [bside, aside] {
            if !rng.chance(0.7) {
                continue;
            }
            for c in b.iter_mut() {
                if *c == Some((side, Kind::R)) {
                    *c = None;
                }
            }
            let (f, r) = TRAPS[rng.below(4)];
            let t = Sq::new(f, r);
            let ns: Vec<Sq> = t.neighbours().collect();
            if rng.chance(0.5) {
                b[t.0 as usize] = Some((side, Kind::R));
                let sup = ns[rng.below(ns.len())];
                for n in &ns {
                    if matches!(b[n.0 as usize], Some((s, _)) if s == side) {
                        b[n.0 as usize] = None;
                    }
                }
                let k = *rng.pick(&[Kind::C, Kind::D, Kind::H]);
                b[sup.0 as usize] = Some((side, k));
            } else {
                let at = ns[rng.below(ns.len())];
                if !((side == Side::Gold && at.rank() == 8) || (side == Side::Silver && at.rank() == 1)) {
                    b[at.0 as usize] = Some((side, Kind::R));
                }
                let k = *rng.pick(&[Kind::D, Kind::H, Kind::M, Kind::E]);
                let other = ns[rng.below(ns.len())];
                if b[other.0 as usize].is_none() {
                    b[other.0 as usize] = Some((side.other(), k));
                }
            }
        }
    }
    // quotas can be exceeded by the forced placements of non-rabbits above: trim
    for side in [Side::Gold, Side::Silver] {
        for k in KINDS {
            while count(&b, side, k) > k.quota() {
                if let Some(c) = b.iter_mut().find(|c| **c == Some((side, k))) {
                    *c = None;
                }
            }
        }
    }
    clean_traps(&mut b);
    b
}

/// the "cage": one side's only mobile piece is confined to two squares while the other side
/// shuffles voluntarily, so that eventually every remaining action is withheld
fn cage_board(rng: &mut Rng) -> (Board, Side) {
    // base: silver r a5; gold R a4, b4, c5; gold E far away
    let mut base: Vec<(u8, u8, Side, Kind)> = vec![(0, 5, Side::Silver, Kind::R), (0, 4, Side::Gold, Kind::R), (1, 4, Side::Gold, Kind::R), (2, 5, Side::Gold, Kind::R)];
    let variant = rng.below(4);
    let (ef, er) = match variant {
        0 => (7, 1),
        1 => (6 + rng.below(2) as u8, 1 + rng.below(2) as u8),
        2 => (4 + rng.below(4) as u8, 1 + rng.below(3) as u8),
        _ => (7, 8),
    };
    let free_kind = *rng.pick(&[Kind::E, Kind::M, Kind::H, Kind::D, Kind::C]);
    base.push((ef, er, Side::Gold, free_kind));
    if rng.chance(0.3) {
        // an idle blocked silver piece somewhere harmless does not change the cage
        base.push((7, 5, Side::Silver, Kind::R));
        base.push((7, 4, Side::Gold, Kind::D));
        base.push((6, 5, Side::Gold, Kind::C));
    }
    let sym = rng.below(4) as u8;
    let mut b = EMPTY;
    for (f, r, s, k) in base {
        let f2 = if sym & 1 != 0 { 7 - f } else { f };
        let (r2, s2) = if sym & 2 != 0 { (9 - r, s.other()) } else { (r, s) };
        b[Sq::new(f2, r2).0 as usize] = Some((s2, k));
    }
    clean_traps(&mut b);
    let mover = if rng.chance(0.5) { Side::Gold } else { Side::Silver };
    (b, mover)
}

/// dense blocked positions: many frozen / immobile pieces, few mobile ones
fn blocked_board(rng: &mut Rng) -> Board {
    let mut b = EMPTY;
    // walls of rabbits facing each other
    let rank = 3 + rng.below(3) as u8;
    for f in 0..8u8 {
        if rng.chance(0.8) {
            b[Sq::new(f, rank + 1).0 as usize] = Some((Side::Silver, Kind::R));
        }
        if rng.chance(0.8) {
            b[Sq::new(f, rank).0 as usize] = Some((Side::Gold, Kind::R));
        }
    }
    for side in [Side::Gold, Side::Silver] {
        let n = rng.below(3);
        for _ in 0..n {
            let k = *rng.pick(&[Kind::C, Kind::D, Kind::H, Kind::M, Kind::E]);
            if count(&b, side, k) < k.quota() {
                place_random(&mut b, rng, side, k, |_| true);
            }
        }
    }
    for side in [Side::Gold, Side::Silver] {
        while count(&b, side, Kind::R) > 8 {
            if let Some(c) = b.iter_mut().find(|c| **c == Some((side, Kind::R))) {
                *c = None;
            }
        }
    }
    clean_traps(&mut b);
    b
}

/// pieces concentrated on the edge files and ranks and in the corners, enemies next to each other
fn edge_board(rng: &mut Rng) -> Board {
    let mut b = EMPTY;
    let mut q = BTreeQuota::new();
    let edge: Vec<Sq> = (0..64u8).map(Sq).filter(|s| s.file() == 0 || s.file() == 7 || s.rank() == 1 || s.rank() == 8).collect();
    let near: Vec<Sq> = (0..64u8).map(Sq).filter(|s| !edge.contains(s) && (s.file() == 1 || s.file() == 6 || s.rank() == 2 || s.rank() == 7)).collect();
    let n_edge = 6 + rng.below(14);
    for _ in 0..n_edge {
        let sq = if rng.chance(0.7) { edge[rng.below(edge.len())] } else { near[rng.below(near.len())] };
        if b[sq.0 as usize].is_some() {
            continue;
        }
        let side = if rng.chance(0.5) { Side::Gold } else { Side::Silver };
        let k = KINDS[rng.weighted(&[3, 2, 2, 2, 2, 2])];
        if k == Kind::R && ((side == Side::Gold && sq.rank() == 8) || (side == Side::Silver && sq.rank() == 1)) {
            continue;
        }
        if q.take(side, k) {
            b[sq.0 as usize] = Some((side, k));
        }
    }
    for side in [Side::Gold, Side::Silver] {
        if count(&b, side, Kind::R) == 0 && q.take(side, Kind::R) {
            place_random(&mut b, rng, side, Kind::R, |sq| (2..=7).contains(&sq.rank()));
        }
    }
    clean_traps(&mut b);
    b
}

/// many adjacent enemy pairs of unequal and equal strength, with friends nearby (freezing,
/// pushes, pulls, several candidate pushers/pullers for one victim)
fn push_pull_board(rng: &mut Rng) -> Board {
    let mut b = EMPTY;
    let mut q = BTreeQuota::new();
    let clusters = 2 + rng.below(4);
    for _ in 0..clusters {
        let c = Sq(rng.below(64) as u8);
        let mut cells: Vec<Sq> = c.neighbours().collect();
        cells.push(c);
        for n in c.neighbours().collect::<Vec<_>>() {
            for nn in n.neighbours() {
                if !cells.contains(&nn) && rng.chance(0.3) {
                    cells.push(nn);
                }
            }
        }
        let victim_side = if rng.chance(0.5) { Side::Gold } else { Side::Silver };
        for (i, cell) in cells.iter().enumerate() {
            if b[cell.0 as usize].is_some() || !rng.chance(0.6) {
                continue;
            }
            let side = if i == cells.len() - 1 { victim_side } else if rng.chance(0.65) { victim_side.other() } else { victim_side };
            let k = KINDS[rng.weighted(&[3, 2, 2, 2, 2, 1])];
            if k == Kind::R && ((side == Side::Gold && cell.rank() == 8) || (side == Side::Silver && cell.rank() == 1)) {
                continue;
            }
            if q.take(side, k) {
                b[cell.0 as usize] = Some((side, k));
            }
        }
    }
    for side in [Side::Gold, Side::Silver] {
        if count(&b, side, Kind::R) == 0 && q.take(side, Kind::R) {
            place_random(&mut b, rng, side, Kind::R, |sq| (2..=7).contains(&sq.rank()));
        }
    }
    clean_traps(&mut b);
    b
}

/// a handful of pieces of few types (twins are likely) packed around one trap, so that the whole
/// tree of a turn is small enough to expand exhaustively
fn trap_cluster_board(rng: &mut Rng) -> Board {
    let mut b = EMPTY;
    let mut q = BTreeQuota::new();
    let (f, r) = TRAPS[rng.below(4)];
    let t = Sq::new(f, r);
    let mut cells: Vec<Sq> = vec![t];
    for df in -2i8..=2 {
        for dr in -2i8..=2 {
            if (df, dr) != (0, 0) && df.abs() + dr.abs() <= 2 {
                cells.push(Sq::new((f as i8 + df) as u8, (r as i8 + dr) as u8));
            }
        }
    }
    let kinds: Vec<Kind> = (0..(2 + rng.below(2))).map(|_| KINDS[rng.weighted(&[3, 3, 3, 2, 1, 1])]).collect();
    let n = 3 + rng.below(5);
    for _ in 0..n {
        let c = cells[rng.below(cells.len())];
        if b[c.0 as usize].is_some() {
            continue;
        }
        let side = if rng.chance(0.5) { Side::Gold } else { Side::Silver };
        let k = kinds[rng.below(kinds.len())];
        if k == Kind::R && ((side == Side::Gold && c.rank() == 8) || (side == Side::Silver && c.rank() == 1)) {
            continue;
        }
        if q.take(side, k) {
            b[c.0 as usize] = Some((side, k));
        }
    }
    // a far, blocked-off rabbit per side keeps the game going without widening the turn tree much
    for (side, sq) in [(Side::Gold, if r <= 4 { Sq::new(7 - f.min(7), 8 - 1) } else { Sq::new(7 - f.min(7), 1) }), (Side::Silver, if r <= 4 { Sq::new(f.min(7), 8) } else { Sq::new(f.min(7), 2) })] {
        if count(&b, side, Kind::R) == 0 && b[sq.0 as usize].is_none() && q.take(side, Kind::R) {
            let ok = !((side == Side::Gold && sq.rank() == 8) || (side == Side::Silver && sq.rank() == 1));
            if ok {
                b[sq.0 as usize] = Some((side, Kind::R));
            }
        }
    }
    clean_traps(&mut b);
    b
}

/// Small crafted motifs with uniformly drawn piece types, meant to be expanded exhaustively for one
/// turn: the conjunctions of push/pull status, traps, freezing and piece-strength pairs that random
/// play almost never lines up.  Built around trap c3 for Gold to move and then mapped through a
/// random symmetry (file mirror, colour swap + rank flip), so all four traps and both colours occur.
fn motif_board(rng: &mut Rng) -> (Board, Side) {
    let mut b = EMPTY;
    let any = |rng: &mut Rng| KINDS[rng.below(6)];
    let non_rabbit = |rng: &mut Rng| KINDS[1 + rng.below(5)];
    let put = |b: &mut Board, f: u8, r: u8, s: Side, k: Kind| {
        let sq = Sq::new(f, r);
        if b[sq.0 as usize].is_none() {
            b[sq.0 as usize] = Some((s, k));
        }
    };
    let g = Side::Gold;
    let sv = Side::Silver;
    // trap c3 = (2,3); neighbours b3 (1,3), d3 (3,3), c2 (2,2), c4 (2,4)
    match rng.below(6) {
        0 => {
            // own piece on the trap with one supporter; an enemy piece next to the trap with an own
            // stronger-or-not piece beside it: stepping off the trap, then displacing the enemy into it
            put(&mut b, 2, 3, g, non_rabbit(rng));
            put(&mut b, 1, 3, g, any(rng));
            put(&mut b, 2, 4, sv, any(rng));
            let k = non_rabbit(rng);
            if rng.chance(0.5) { put(&mut b, 2, 5, g, k) } else { put(&mut b, 3, 4, g, k) }
            if rng.chance(0.4) { put(&mut b, 1, 4, sv, any(rng)); }
        }
        1 => {
            // twins around the trap and an enemy piece that can be pushed or pulled round a 2x2 block
            let k = non_rabbit(rng);
            put(&mut b, 2, 3, g, k);
            put(&mut b, 3, 3, g, if rng.chance(0.7) { k } else { non_rabbit(rng) });
            put(&mut b, 3, 4, sv, any(rng));
            if rng.chance(0.3) { put(&mut b, 1, 3, g, any(rng)); }
            if rng.chance(0.3) { put(&mut b, 2, 2, sv, any(rng)); }
        }
        2 => {
            // an enemy piece on the trap held by one supporter that can be pushed or pulled away
            put(&mut b, 2, 3, sv, any(rng));
            put(&mut b, 2, 4, sv, any(rng));
            put(&mut b, 2, 5, g, non_rabbit(rng));
            if rng.chance(0.5) { put(&mut b, 1, 4, g, non_rabbit(rng)); }
            if rng.chance(0.4) { put(&mut b, 3, 3, g, any(rng)); }
        }
        3 => {
            // freezing and unfreezing inside one turn: a weak own piece next to a strong enemy,
            // a friend that can arrive or leave, an own strong piece that can push the freezer away
            put(&mut b, 3, 4, g, any(rng));
            put(&mut b, 4, 4, sv, non_rabbit(rng));
            put(&mut b, 3, 5, g, any(rng));
            put(&mut b, 5, 4, g, non_rabbit(rng));
            if rng.chance(0.5) { put(&mut b, 4, 5, sv, any(rng)); }
        }
        4 => {
            // the pusher or puller itself stands on a trap and depends on a supporter that may leave
            put(&mut b, 2, 3, g, non_rabbit(rng));
            put(&mut b, 2, 2, g, any(rng));
            put(&mut b, 3, 3, sv, any(rng));
            if rng.chance(0.5) { put(&mut b, 4, 3, sv, any(rng)); }
            if rng.chance(0.5) { put(&mut b, 1, 3, sv, any(rng)); }
        }
        _ => {
            // two enemy pieces one own piece could pull or push, one of them next to the trap
            put(&mut b, 3, 4, g, non_rabbit(rng));
            put(&mut b, 2, 4, sv, any(rng));
            put(&mut b, 3, 5, sv, any(rng));
            put(&mut b, 4, 4, sv, any(rng));
            if rng.chance(0.5) { put(&mut b, 2, 3, g, any(rng)); put(&mut b, 2, 2, g, any(rng)); }
        }
    }
    // often: something the mover can get captured on the first step, far from the motif (a
    // rabbit next to the empty, unguarded trap f6), so that "a piece was trapped earlier this
    // turn" combines with everything the motif offers
    if rng.chance(0.35) {
        match rng.below(3) {
            0 => put(&mut b, 5, 5, g, Kind::R),          // f5 -> f6
            1 => put(&mut b, 6, 6, g, any(rng)),         // g6 -> f6
            _ => {
                // an enemy piece on f6 held by one supporter the mover can pull or push away
                put(&mut b, 5, 6, sv, any(rng));
                put(&mut b, 5, 7, sv, Kind::R);
                put(&mut b, 6, 7, g, non_rabbit(rng));
            }
        }
    }
    // rabbits far away keep the game alive (rabbits may also have been drawn into the motif)
    if count(&b, g, Kind::R) == 0 { put(&mut b, 7, 1, g, Kind::R); }
    if count(&b, sv, Kind::R) == 0 { put(&mut b, 7, 8, sv, Kind::R); }
    // quotas: at most the legal number of each type
    for side in [g, sv] {
        for k in KINDS {
            while count(&b, side, k) > k.quota() {
                if let Some(c) = b.iter_mut().find(|c| **c == Some((side, k))) { *c = None; }
            }
        }
    }
    // a rabbit must not start on its goal rank
    for f in 0..8u8 {
        if b[Sq::new(f, 8).0 as usize] == Some((g, Kind::R)) { b[Sq::new(f, 8).0 as usize] = None; }
        if b[Sq::new(f, 1).0 as usize] == Some((sv, Kind::R)) { b[Sq::new(f, 1).0 as usize] = None; }
    }
    let sym = rng.below(4) as u8;
    let mut b2 = transform_board(&b, sym);
    clean_traps(&mut b2);
    let mover = if sym & 2 != 0 { sv } else { g };
    // mostly the side the motif was built for, sometimes the other one
    (b2, if rng.chance(0.85) { mover } else { mover.other() })
}

/// Confrontations at the boundary of "strictly stronger": an enemy piece with an own piece of
/// (mostly) the same type beside it, a second own piece (mostly stronger) on another side of it,
/// an enemy heavy piece within two squares, and the squares around them partly filled so that
/// freezing, boxing-in and the only free square matter.  Anywhere on the board (edges and corners
/// included), away from traps or not; meant to be expanded exhaustively for one turn.  Built for
/// Gold to move and mapped through a random symmetry.
fn confront_board(rng: &mut Rng) -> (Board, Side) {
    let g = Side::Gold;
    let sv = Side::Silver;
    let mut b = EMPTY;
    let put = |b: &mut Board, sq: Sq, s: Side, k: Kind| {
        if b[sq.0 as usize].is_none() {
            b[sq.0 as usize] = Some((s, k));
        }
    };
    let stronger = |rng: &mut Rng, k: Kind| -> Kind {
        let i = k as usize;
        if i >= 5 { Kind::E } else { KINDS[i + 1 + rng.below(5 - i)] }
    };
    let v = Sq(rng.below(64) as u8);
    let nb: Vec<Sq> = v.neighbours().collect();
    let x = nb[rng.below(nb.len())];
    // the second own piece: opposite the first one (a line) half of the time
    let opposite = nb.iter().copied().find(|u| *u != x && (u.file() == x.file() || u.rank() == x.rank()));
    let others: Vec<Sq> = nb.iter().copied().filter(|u| *u != x).collect();
    let u = match opposite {
        Some(o) if rng.chance(0.5) => o,
        _ => others[rng.below(others.len())],
    };
    let t = KINDS[rng.weighted(&[1, 2, 2, 2, 3, 1])];
    put(&mut b, v, sv, t);
    let kx = if rng.chance(0.6) { t } else { KINDS[rng.below(6)] };
    put(&mut b, x, g, kx);
    let ku = if rng.chance(0.7) { stronger(rng, t) } else { KINDS[1 + rng.below(5)] };
    put(&mut b, u, g, ku);
    // an enemy heavy piece near the first own piece: straight ahead of it (two squares from
    // where it stands, on the line through the enemy piece) or anywhere within two squares
    let ahead = {
        let (df, dr) = (x.file() as i8 - v.file() as i8, x.rank() as i8 - v.rank() as i8);
        let (f, r) = (x.file() as i8 + 2 * df, x.rank() as i8 + 2 * dr);
        if (0..8).contains(&f) && (1..=8).contains(&r) { Some(Sq::new(f as u8, r as u8)) } else { None }
    };
    let z = match ahead {
        Some(a) if rng.chance(0.5) => Some(a),
        _ => {
            let near: Vec<Sq> = (0..64u8).map(Sq).filter(|q| {
                let d = (q.file() as i8 - x.file() as i8).abs() + (q.rank() as i8 - x.rank() as i8).abs();
                d >= 1 && d <= 2 && b[q.0 as usize].is_none()
            }).collect();
            if near.is_empty() { None } else { Some(near[rng.below(near.len())]) }
        }
    };
    if let Some(z) = z {
        let kz = if rng.chance(0.7) { stronger(rng, kx) } else { KINDS[1 + rng.below(5)] };
        put(&mut b, z, sv, kz);
    }
    // partly fill what surrounds the three pieces
    let density = [0.25, 0.45, 0.65][rng.below(3)];
    for c in [v, x, u] {
        for n in c.neighbours().collect::<Vec<_>>() {
            if b[n.0 as usize].is_none() && rng.chance(density) {
                let side = if rng.chance(0.5) { g } else { sv };
                put(&mut b, n, side, KINDS[rng.weighted(&[3, 2, 2, 2, 1, 1])]);
            }
        }
    }
    // rabbits far away keep the game alive and give the mover a free step
    if count(&b, g, Kind::R) == 0 {
        place_random(&mut b, rng, g, Kind::R, |sq| (1..=6).contains(&sq.rank()));
    }
    if count(&b, sv, Kind::R) == 0 {
        place_random(&mut b, rng, sv, Kind::R, |sq| (3..=8).contains(&sq.rank()));
    }
    for side in [g, sv] {
        for k in KINDS {
            while count(&b, side, k) > k.quota() {
                // remove surplus pieces from the fill, never the three central ones if avoidable
                let idx = (0..64usize).rev().find(|i| b[*i] == Some((side, k)) && ![v, x, u].iter().any(|c| c.0 as usize == *i)).or_else(|| (0..64usize).find(|i| b[*i] == Some((side, k))));
                if let Some(i) = idx { b[i] = None; }
            }
        }
    }
    for f in 0..8u8 {
        if b[Sq::new(f, 8).0 as usize] == Some((g, Kind::R)) { b[Sq::new(f, 8).0 as usize] = None; }
        if b[Sq::new(f, 1).0 as usize] == Some((sv, Kind::R)) { b[Sq::new(f, 1).0 as usize] = None; }
    }
    if count(&b, g, Kind::R) == 0 { put(&mut b, Sq::new(7, 1), g, Kind::R); }
    if count(&b, sv, Kind::R) == 0 { put(&mut b, Sq::new(7, 8), sv, Kind::R); }
    let sym = rng.below(4) as u8;
    let mut b2 = transform_board(&b, sym);
    clean_traps(&mut b2);
    let mover = if sym & 2 != 0 { sv } else { g };
    (b2, if rng.chance(0.9) { mover } else { mover.other() })
}

/// Last rabbits: each side is down to one rabbit (sometimes two), standing on a trap with a single
/// supporter, next to an unguarded trap, or loose, with a few heavier pieces of both colours in
/// the same neighbourhood, so that within one turn a side can lose its last rabbit (by the
/// opponent's push or pull, by its own step into the trap, or because its supporter leaves), both
/// sides can, and play goes on afterwards with captures still on offer.  Few pieces: the whole
/// first turn is expanded.
fn elimination_board(rng: &mut Rng) -> Board {
    let mut b = EMPTY;
    let mut q = BTreeQuota::new();
    let t1 = TRAPS[rng.below(4)];
    // the second rabbit lives at the same trap, at the trap on the same file / rank, or anywhere
    let t2 = match rng.below(3) {
        0 => t1,
        1 => if rng.chance(0.5) { (t1.0, 9 - t1.1) } else { (7 - t1.0, t1.1) },
        _ => TRAPS[rng.below(4)],
    };
    for (side, (tf, tr)) in [(Side::Gold, t1), (Side::Silver, t2)] {
        let trap = Sq::new(tf, tr);
        let around: Vec<Sq> = trap.neighbours().collect();
        let nrab = if rng.chance(0.75) { 1 } else { 2 };
        for _ in 0..nrab {
            let goal_rank = if side == Side::Gold { 8 } else { 1 };
            match rng.below(4) {
                0 if b[trap.0 as usize].is_none() => {
                    // on the trap, held by exactly one friend
                    if q.take(side, Kind::R) {
                        b[trap.0 as usize] = Some((side, Kind::R));
                        let sup = around[rng.below(around.len())];
                        let k = KINDS[1 + rng.below(5)];
                        if b[sup.0 as usize].is_none() && q.take(side, k) {
                            b[sup.0 as usize] = Some((side, k));
                        }
                    }
                }
                1 | 2 => {
                    // next to the trap
                    let c = around[rng.below(around.len())];
                    if b[c.0 as usize].is_none() && c.rank() != goal_rank && q.take(side, Kind::R) {
                        b[c.0 as usize] = Some((side, Kind::R));
                    }
                }
                _ => {
                    if q.take(side, Kind::R) && !place_random(&mut b, rng, side, Kind::R, |sq| (2..=7).contains(&sq.rank()) && !sq.is_trap()) {
                        // no room: the rabbit goes back to the reserve (harmless)
                    }
                }
            }
        }
        // heavier pieces of both colours within two squares of the trap
        let near: Vec<Sq> = (0..64u8).map(Sq).filter(|c| {
            let d = (c.file() as i8 - tf as i8).abs() + (c.rank() as i8 - tr as i8).abs();
            d >= 1 && d <= 2
        }).collect();
        for _ in 0..(1 + rng.below(3)) {
            let c = near[rng.below(near.len())];
            let s2 = if rng.chance(0.6) { side.other() } else { side };
            let k = KINDS[rng.weighted(&[0, 2, 2, 2, 2, 2])];
            if b[c.0 as usize].is_none() && q.take(s2, k) {
                b[c.0 as usize] = Some((s2, k));
            }
        }
    }
    for side in [Side::Gold, Side::Silver] {
        if count(&b, side, Kind::R) == 0 && q.take(side, Kind::R) {
            place_random(&mut b, rng, side, Kind::R, |sq| (2..=7).contains(&sq.rank()) && !sq.is_trap());
        }
        // a spare non-rabbit somewhere, so that a side without rabbits can still move
        if rng.chance(0.6) {
            let k = KINDS[1 + rng.below(5)];
            if q.take(side, k) {
                place_random(&mut b, rng, side, k, |sq| !sq.is_trap());
            }
        }
    }
    clean_traps(&mut b);
    b
}

/// Positions with as many legal first steps as a seeded hill-climb can find (full or nearly full
/// material, spread out, strong pieces next to weaker enemy pieces with room to be pushed): the
/// long-list end of the distribution, which random positions never reach.
fn mobility_board(rng: &mut Rng, to_move: Side) -> Board {
    let mut b = random_board(rng, 3, true);
    let score = |b: &Board| Model::from_position(*b, to_move, 2).legal().len();
    let mut best = score(&b);
    // one climb in twelve is a long one with annealing (a slightly worse board is sometimes
    // accepted in the first two thirds): these reach the far tail, 75-80 legal first steps
    let deep = rng.chance(0.08);
    let iters = if deep { 14_000 } else if rng.chance(0.2) { 1500 + rng.below(1500) } else { 60 + rng.below(500) };
    let mut best_board = b;
    let mut best_ever = best;
    for it in 0..iters {
        // move one piece to a random empty square (rabbits stay off their goal rank)
        let from = Sq(rng.below(64) as u8);
        let to = Sq(rng.below(64) as u8);
        let pc = match b[from.0 as usize] {
            Some(p) => p,
            None => continue,
        };
        if b[to.0 as usize].is_some() || (pc.1 == Kind::R && ((pc.0 == Side::Gold && to.rank() == 8) || (pc.0 == Side::Silver && to.rank() == 1))) {
            continue;
        }
        let mut c = b;
        c[from.0 as usize] = None;
        c[to.0 as usize] = Some(pc);
        if !unsupported_on_traps(&c).is_empty() {
            continue;
        }
        let sc = score(&c);
        let anneal = deep && it < iters * 2 / 3 && sc + 2 >= best && rng.chance(0.05);
        if sc >= best || anneal {
            best = sc;
            b = c;
            if sc > best_ever {
                best_ever = sc;
                best_board = c;
            }
        }
    }
    if deep {
        best_board
    } else {
        b
    }
}

/// a completely filled block of squares at an edge or in a corner (pieces of both sides, types
/// drawn uniformly) on an otherwise nearly empty board: most pieces have no empty neighbour, the
/// side to move is immobilised or can only push, and everything happens next to the board edge
fn jam_board(rng: &mut Rng) -> Board {
    let mut b = EMPTY;
    let mut q = BTreeQuota::new();
    let w = 2 + rng.below(3) as u8; // 2..4 files
    let h = 2 + rng.below(4) as u8; // 2..5 ranks
    let f0 = match rng.below(3) { 0 => 0, 1 => 8 - w, _ => rng.below((9 - w) as usize) as u8 };
    let r0 = match rng.below(3) { 0 => 1, 1 => 9 - h, _ => 1 + rng.below((9 - h) as usize) as u8 };
    for f in f0..f0 + w {
        for r in r0..r0 + h {
            if rng.chance(0.08) {
                continue; // an occasional hole
            }
            let sq = Sq::new(f, r);
            let side = if rng.chance(0.5) { Side::Gold } else { Side::Silver };
            let k = KINDS[rng.below(6)];
            if k == Kind::R && ((side == Side::Gold && r == 8) || (side == Side::Silver && r == 1)) {
                continue;
            }
            if q.take(side, k) {
                b[sq.0 as usize] = Some((side, k));
            }
        }
    }
    // a few pieces elsewhere, and at least one rabbit per side
    let extra = rng.below(4);
    for _ in 0..extra {
        let side = if rng.chance(0.5) { Side::Gold } else { Side::Silver };
        let k = KINDS[rng.below(6)];
        if q.take(side, k) {
            place_random(&mut b, rng, side, k, |sq| k != Kind::R || (2..=7).contains(&sq.rank()));
        }
    }
    for side in [Side::Gold, Side::Silver] {
        if count(&b, side, Kind::R) == 0 && q.take(side, Kind::R) {
            place_random(&mut b, rng, side, Kind::R, |sq| (2..=7).contains(&sq.rank()));
        }
    }
    clean_traps(&mut b);
    b
}

pub const LIBRARY: &[&str] = &[
    // the smallest cage, as measured in the design phase (all-withheld state after 17 actions)
    "2g\n +-----------------+\n8|                 |\n7|                 |\n6|     x     x     |\n5| r   R           |\n4| R R             |\n3|     x     x     |\n2|                 |\n1|               E |\n +-----------------+\n   a b c d e f g h\n",
    // gold can push a silver rabbit onto silver's goal rank and bring its own rabbit home in one turn
    "7g\n +-----------------+\n8|                 |\n7|   R             |\n6|     x     x     |\n5|                 |\n4|                 |\n3|     x     x     |\n2|       D r       |\n1|                 |\n +-----------------+\n   a b c d e f g h\n",
    // last silver rabbit on c6 held by one supporter that gold can pull away
    "11g\n +-----------------+\n8|                 |\n7|                 |\n6|   c r     x     |\n5|   E             |\n4|                 |\n3|     x     x     |\n2|     R           |\n1|                 |\n +-----------------+\n   a b c d e f g h\n",
    // equal-strength neighbours everywhere: nothing may be pushed or pulled
    "4s\n +-----------------+\n8|                 |\n7|     d D         |\n6| h H x     x     |\n5|       c C       |\n4|   m M     e E   |\n3|     x     x     |\n2|   r R     R r   |\n1|                 |\n +-----------------+\n   a b c d e f g h\n",
    // pieces on ranks 1/2 and 7/8 supporting each other next to strong enemies
    "9g\n +-----------------+\n8| r e             |\n7| R   m           |\n6|     x     x     |\n5|                 |\n4|                 |\n3|     x     x     |\n2|             M r |\n1|           E   R |\n +-----------------+\n   a b c d e f g h\n",
    // the standard opening position, gold to move
    "2g\n +-----------------+\n8| r r r r r r r r |\n7| h d c e m c d h |\n6|     x     x     |\n5|                 |\n4|                 |\n3|     x     x     |\n2| H D C M E C D H |\n1| R R R R R R R R |\n +-----------------+\n   a b c d e f g h\n",
    // both sides a step from goal, traps occupied with single supporters
    "23s\n +-----------------+\n8|                 |\n7|       R         |\n6|     C D   x     |\n5|                 |\n4|                 |\n3|     x   d c     |\n2|         r       |\n1|                 |\n +-----------------+\n   a b c d e f g h\n",
    // self-blockade without any enemy contact: a complete two-rank wall cannot move at all
    "40g\n +-----------------+\n8| H D C M E C D H |\n7| R R R R R R R R |\n6|     x     x     |\n5|                 |\n4|                 |\n3|     x     x     |\n2| r   e           |\n1|                 |\n +-----------------+\n   a b c d e f g h\n",
    // the same wall one step before it closes (the last rabbit steps in, then the turn passes)
    "38g\n +-----------------+\n8| H D C M E C D H |\n7| R R R R R R R   |\n6|     x     x R   |\n5|                 |\n4|                 |\n3|     x     x     |\n2| r   e           |\n1|                 |\n +-----------------+\n   a b c d e f g h\n",
    // immobilised side to move: gold's only pieces are frozen
    "30g\n +-----------------+\n8|                 |\n7|                 |\n6|     x     x     |\n5|                 |\n4|   e             |\n3| r R x     x     |\n2| c               |\n1|                 |\n +-----------------+\n   a b c d e f g h\n",
];

/// transform a board by file mirror (bit 0) and colour swap + rank flip (bit 1)
pub fn transform_board(b: &Board, sym: u8) -> Board {
    let mut o = EMPTY;
    for i in 0..64u8 {
        if let Some((s, k)) = b[i as usize] {
            let s2 = if sym & 2 != 0 { s.other() } else { s };
            o[transform_sq(Sq(i), sym).0 as usize] = Some((s2, k));
        }
    }
    o
}
pub fn transform_sq(sq: Sq, sym: u8) -> Sq {
    let f = if sym & 1 != 0 { 7 - sq.file() } else { sq.file() };
    let r = if sym & 2 != 0 { 9 - sq.rank() } else { sq.rank() };
    Sq::new(f, r)
}
pub fn transform_dir(d: Dir, sym: u8) -> Dir {
    let d = if sym & 1 != 0 {
        match d {
            Dir::E => Dir::W,
            Dir::W => Dir::E,
            x => x,
        }
    } else {
        d
    };
    if sym & 2 != 0 {
        match d {
            Dir::N => Dir::S,
            Dir::S => Dir::N,
            x => x,
        }
    } else {
        d
    }
}
pub fn transform_act(a: Act, sym: u8) -> Act {
    match a {
        Act::Step(q, d) => Act::Step(transform_sq(q, sym), transform_dir(d, sym)),
        x => x,
    }
}

pub fn generate(rng: &mut Rng, family: Family) -> Start {
    let side = if rng.chance(0.5) { Side::Gold } else { Side::Silver };
    let mv = move_number(rng);
    let (board, side) = match family {
        Family::Setup => return Start::Initial,
        Family::Random => {
            let d = rng.below(4);
            let off_goal = rng.chance(0.5);
            (random_board(rng, d, off_goal), side)
        }
        Family::Sparse => (sparse_board(rng), side),
        Family::TrapDense => (trap_dense_board(rng), side),
        Family::Goal => (goal_board(rng, side), side),
        Family::Cage => cage_board(rng),
        Family::Blocked => (blocked_board(rng), side),
        Family::Edge => (edge_board(rng), side),
        Family::PushPull => (push_pull_board(rng), side),
        Family::TrapCluster => (trap_cluster_board(rng), side),
        Family::Motif => motif_board(rng),
        Family::Mobility => (mobility_board(rng, side), side),
        Family::Jam => (jam_board(rng), side),
        Family::Confront => confront_board(rng),
        Family::Elimination => (elimination_board(rng), side),
        Family::Library => {
            let text = LIBRARY[rng.below(LIBRARY.len())];
            let (b, s, _) = parse_diagram(text).expect("library diagram");
            let sym = rng.below(4) as u8;
            let mut b2 = transform_board(&b, sym);
            clean_traps(&mut b2);
            let s2 = if sym & 2 != 0 { s.other() } else { s };
            (b2, s2)
        }
    };
    Start::Diagram(diagram(&board, side, mv))
}
