//! Seam between `arimaa_engine_step` (built with `--cfg arimaa_engine_step_verif`) and the
//! simulator.  `Arc<T>` wraps the real `std::sync::Arc<T>`; every clone / drop / unwrap is a
//! scheduling point and nested drops are counted (the C20 probe).  `point(name)` is a named
//! scheduling point.  Without the `shuttle` feature every scheduling point is an inlined no-op,
//! so the hooked engine behaves exactly like the shipped one (checked by the transparency
//! self-test).
use std::cell::Cell;
use std::mem::ManuallyDrop;
use std::ops::Deref;

// Per OS thread == per shuttle execution (shuttle tasks are coroutines on the runner's thread).
std::thread_local! {
    static MAXDEPTH: Cell<usize> = const { Cell::new(0) };
    static SCHED_DIGEST: Cell<u64> = const { Cell::new(0xcbf29ce484222325) };
    static POINTS: Cell<u64> = const { Cell::new(0) };
    static SWITCHES: Cell<u64> = const { Cell::new(0) };
    static LAST_TASK: Cell<u64> = const { Cell::new(u64::MAX) };
}

// Per simulated task (shuttle tasks are coroutines, so they need shuttle's own thread_local).
#[cfg(feature = "shuttle")]
shuttle::thread_local! { static TASK_DEPTH: Cell<usize> = Cell::new(0); }
std::thread_local! {
    static DEPTH: Cell<usize> = const { Cell::new(0) };
    // true only while the calling OS thread is inside a shuttle execution started by the simulator
    static SCHEDULING: Cell<bool> = const { Cell::new(false) };
}

/// Switch scheduling points on or off for this OS thread.  Off (the default) makes every
/// scheduling point a no-op, so the hooked engine can also be used outside a shuttle execution.
pub fn set_scheduling(on: bool) {
    SCHEDULING.with(|s| s.set(on));
}
fn scheduling() -> bool {
    SCHEDULING.with(|s| s.get())
}

fn depth_enter() -> usize {
    #[cfg(feature = "shuttle")]
    if scheduling() {
        return TASK_DEPTH.with(|d| {
            let v = d.get() + 1;
            d.set(v);
            v
        });
    }
    DEPTH.with(|d| {
        let v = d.get() + 1;
        d.set(v);
        v
    })
}
fn depth_leave() {
    #[cfg(feature = "shuttle")]
    if scheduling() {
        TASK_DEPTH.with(|d| d.set(d.get() - 1));
        return;
    }
    DEPTH.with(|d| d.set(d.get() - 1));
}

#[cfg(feature = "shuttle")]
fn task_id() -> u64 {
    let id: usize = shuttle::current::me().into();
    id as u64
}

/// A named scheduling point.
#[inline]
pub fn point(_name: &'static str) {
    #[cfg(feature = "shuttle")]
    if scheduling() {
        shuttle::thread::sleep(std::time::Duration::ZERO);
        let me = task_id();
        POINTS.with(|p| p.set(p.get() + 1));
        LAST_TASK.with(|l| {
            if l.get() != me {
                SWITCHES.with(|s| s.set(s.get() + 1));
                l.set(me);
            }
        });
        SCHED_DIGEST.with(|d| {
            let mut h = d.get();
            h = (h ^ me).wrapping_mul(0x100000001b3);
            d.set(h);
        });
    }
}

/// Digest of the sequence of task ids observed at scheduling points since the last call,
/// with the number of points and of task switches.  Resets the counters.
pub fn take_schedule_digest() -> (u64, u64, u64) {
    let d = SCHED_DIGEST.with(|d| d.replace(0xcbf29ce484222325));
    let p = POINTS.with(|p| p.replace(0));
    let s = SWITCHES.with(|s| s.replace(0));
    LAST_TASK.with(|l| l.set(u64::MAX));
    (d, p, s)
}

/// Largest nesting of `Arc` drops seen on this OS thread since the last call.
pub fn take_max_drop_depth() -> usize {
    MAXDEPTH.with(|m| m.replace(0))
}

pub struct Arc<T>(ManuallyDrop<std::sync::Arc<T>>);

impl<T: std::fmt::Debug> std::fmt::Debug for Arc<T> {
    fn fmt(&self, f: &mut std::fmt::Formatter<'_>) -> std::fmt::Result {
        std::fmt::Debug::fmt(&**self.0, f)
    }
}

impl<T: Default> Default for Arc<T> {
    fn default() -> Self {
        Arc::new(T::default())
    }
}

impl<T> Arc<T> {
    pub fn new(t: T) -> Self {
        Arc(ManuallyDrop::new(std::sync::Arc::new(t)))
    }

    fn into_std(this: Self) -> std::sync::Arc<T> {
        let mut this = ManuallyDrop::new(this);
        // SAFETY: `this` is never dropped (ManuallyDrop) and its field is taken exactly once.
        unsafe { ManuallyDrop::take(&mut this.0) }
    }

    pub fn try_unwrap(this: Self) -> Result<T, Self> {
        point("arc.try_unwrap");
        std::sync::Arc::try_unwrap(Self::into_std(this)).map_err(|a| Arc(ManuallyDrop::new(a)))
    }

    pub fn into_inner(this: Self) -> Option<T> {
        point("arc.into_inner");
        std::sync::Arc::into_inner(Self::into_std(this))
    }

    pub fn strong_count(this: &Self) -> usize {
        std::sync::Arc::strong_count(&this.0)
    }

    pub fn ptr_eq(a: &Self, b: &Self) -> bool {
        std::sync::Arc::ptr_eq(&a.0, &b.0)
    }

    pub fn as_ptr(this: &Self) -> *const T {
        std::sync::Arc::as_ptr(&this.0)
    }

    pub fn get_mut(this: &mut Self) -> Option<&mut T> {
        std::sync::Arc::get_mut(&mut this.0)
    }
}

impl<T: Clone> Arc<T> {
    pub fn make_mut(this: &mut Self) -> &mut T {
        point("arc.make_mut");
        std::sync::Arc::make_mut(&mut this.0)
    }
}

impl<T> Clone for Arc<T> {
    fn clone(&self) -> Self {
        point("arc.clone");
        Arc(ManuallyDrop::new((*self.0).clone()))
    }
}

impl<T> Deref for Arc<T> {
    type Target = T;
    fn deref(&self) -> &T {
        &self.0
    }
}

impl<T> AsRef<T> for Arc<T> {
    fn as_ref(&self) -> &T {
        &self.0
    }
}

impl<T> From<T> for Arc<T> {
    fn from(t: T) -> Self {
        Arc::new(t)
    }
}

impl<T> Drop for Arc<T> {
    fn drop(&mut self) {
        point("arc.drop");
        let d = depth_enter();
        MAXDEPTH.with(|m| {
            if d > m.get() {
                m.set(d)
            }
        });
        // SAFETY: dropped exactly once, here.
        unsafe {
            ManuallyDrop::drop(&mut self.0);
        }
        depth_leave();
    }
}
