//! C18, part 3: the concurrent-expansion workload with real `std::thread`s, meant to run under
//! Miri (`-Zmiri-many-seeds`), whose seeded scheduler preempts at arbitrary points and whose
//! data-race detector sees what shuttle (which serialises tasks) cannot.  Shipped configuration.
//! No diagram is parsed here: the regex compilation inside GameState::from_str is too slow for
//! Miri.  The shared root is reached by a scripted game in which both sides shuffle a horse, so
//! that its history holds positions that already occurred twice: expanding it consults the
//! repetition history with mixed answers.
use arimaa_engine_step::*;
use std::sync::{Arc, Mutex};
use std::thread;

fn act(s: &str) -> Action {
    s.parse().unwrap()
}

fn root() -> GameState {
    let mut s = GameState::initial();
    for _ in 0..2 {
        for a in ["r", "r", "r", "r", "r", "r", "r", "r", "h", "c", "d", "m", "e", "d", "c", "h"] {
            s = s.take_action(&act(a));
        }
    }
    // gold: rabbit a2-a3, horse a1-a2; then both horses shuffle a1<->a2 and a7<->a6
    let script = [
        "a2n", "a1n", "p", "a7s", "p", //
        "a2s", "p", "a6n", "p", "a1n", "p", "a7s", "p", //
        "a2s", "p", "a6n", "p",
    ];
    for a in script {
        let a = act(a);
        // the script must be legal play (checked natively by `cargo run -p arena-miri -- check`)
        if std::env::args().nth(2).as_deref() == Some("check") {
            assert!(s.valid_actions().contains(&a), "scripted action {} not offered", a);
        }
        s = s.take_action(&a);
    }
    s
}

fn xorshift(x: &mut u64) -> u64 {
    *x ^= *x << 13;
    *x ^= *x >> 7;
    *x ^= *x << 17;
    *x
}

fn digest(s: &GameState) -> u64 {
    let mut h = s.transposition_hash() ^ (s.move_number() as u64).rotate_left(17) ^ (s.is_p1_turn_to_move() as u64);
    if let Some(pp) = s.as_play_phase() {
        for z in pp.hash_history().iter() {
            h = h.rotate_left(5) ^ z.board_state_hash();
        }
        h ^= s.current_step() as u64;
    }
    h ^ ((s.can_pass(true) as u64) << 1) ^ ((s.can_pass(false) as u64) << 2)
}

fn list_digest(s: &GameState) -> u64 {
    let mut h = 0u64;
    for a in s.valid_actions() {
        h = h.rotate_left(3) ^ a.to_string().bytes().fold(0u64, |acc, b| acc.wrapping_mul(31).wrapping_add(b as u64));
    }
    h ^ (s.is_terminal().is_some() as u64)
}

/// Cold start: the very first engine calls of the process are made by several threads at once
/// (nothing has been built, printed or hashed before), so any initialise-at-first-use state inside
/// the engine is entered concurrently.  Every thread plays placements from the initial state and
/// records a digest after each; the digests are compared with sequential re-execution afterwards.
fn cold_start(seed: u64) {
    let mut hs = vec![];
    for t in 0..3u64 {
        hs.push(thread::spawn(move || {
            let mut x = seed.wrapping_mul(0x9E3779B97F4A7C15).wrapping_add(t * 7 + 3) | 1;
            let mut s = GameState::initial();
            let mut log: Vec<(Action, u64, u64)> = vec![];
            for _ in 0..3 {
                let va = s.valid_actions();
                let a = va[(xorshift(&mut x) as usize) % va.len()];
                s = s.take_action(&a);
                log.push((a, s.transposition_hash(), list_digest(&s)));
            }
            log
        }));
    }
    let logs: Vec<_> = hs.into_iter().map(|h| h.join().unwrap()).collect();
    for log in logs {
        let mut s = GameState::initial();
        for (a, h, l) in log {
            s = s.take_action(&a);
            assert_eq!(s.transposition_hash(), h, "cold start: concurrent first use gave a different hash than sequential execution");
            assert_eq!(list_digest(&s), l, "cold start: concurrent first use gave a different action list than sequential execution");
        }
    }
}

fn bit(file: u8, rank: u8) -> u64 {
    1u64 << ((8 - rank) * 8 + file)
}

/// A position with more than fifty offered actions (no text is parsed: the state is put together
/// from bitboards through the public constructors, exactly as the reader does): the long-list end
/// of move generation, where buffers spill and fast paths for short lists no longer apply.
fn wide_root() -> GameState {
    // Gold: H b5, E d5, M f5, H h5, D a3, D e3, C g3, C c2, rabbits b1 d1 f1 h1 c7 e7 g7; Silver: r a8
    let horses = bit(1, 5) | bit(7, 5);
    let elephants = bit(3, 5);
    let camels = bit(5, 5);
    let dogs = bit(0, 3) | bit(4, 3);
    let cats = bit(6, 3) | bit(2, 2);
    let gold_rabbits = bit(1, 1) | bit(3, 1) | bit(5, 1) | bit(7, 1) | bit(2, 7) | bit(4, 7) | bit(6, 7);
    let silver_rabbits = bit(0, 8);
    let p1 = horses | elephants | camels | dogs | cats | gold_rabbits;
    let pb = PieceBoard::new(p1, elephants, camels, horses, dogs, cats, gold_rabbits | silver_rabbits);
    let hash = Zobrist::from_piece_board(pb.piece_board(), true, 0);
    let history = List::new().append(hash);
    GameState::new(true, 2, Phase::PlayPhase(PlayPhase::initial(hash, history)), pb, hash)
}

fn full_list(s: &GameState) -> Vec<String> {
    s.valid_actions().iter().map(|a| a.to_string()).collect()
}

/// Three real threads list and expand one shared wide state at the same time, twice each, and
/// apply a different action each; everything is compared with a private copy used sequentially.
fn wide_phase(seed: u64) {
    let shared = Arc::new(wide_root());
    let private = wide_root();
    let want = full_list(&private);
    let want_norep: Vec<String> = private.valid_actions_no_rep().iter().map(|a| a.to_string()).collect();
    assert!(want.len() > 48, "the wide root offers only {} actions", want.len());
    let mut hs = vec![];
    for t in 0..3u64 {
        let st = shared.clone();
        hs.push(thread::spawn(move || {
            let a = full_list(&st);
            let b: Vec<String> = st.valid_actions_no_rep().iter().map(|a| a.to_string()).collect();
            let c = full_list(&st);
            let va = st.valid_actions();
            let k = ((seed as usize).wrapping_mul(31) + (t as usize) * 17) % va.len().max(1);
            let child = st.take_action(&va[k.min(va.len() - 1)]);
            (a, b, c, k, child.transposition_hash(), full_list(&child))
        }));
    }
    for h in hs {
        let (a, b, c, k, ch, cl) = h.join().unwrap();
        assert_eq!(a, want, "wide root: a concurrent action list differs from sequential execution");
        assert_eq!(b, want_norep, "wide root: a concurrent rule-only list differs from sequential execution");
        assert_eq!(c, want, "wide root: a concurrent action list differs from sequential execution");
        let va = private.valid_actions();
        let child = private.take_action(&va[k]);
        assert_eq!(child.transposition_hash(), ch, "wide root: a concurrent child differs from sequential execution");
        assert_eq!(full_list(&child), cl, "wide root: a concurrent child's list differs from sequential execution");
    }
}

fn main() {
    let seed: u64 = std::env::args().nth(1).map(|s| s.parse().unwrap()).unwrap_or(1);
    cold_start(seed);
    wide_phase(seed);
    // the shared root is never queried before the threads start: the expected values are
    // computed on a separately rebuilt private copy
    let shared = Arc::new(root());
    let private = root();
    let root_digest = digest(&private);
    let root_list = list_digest(&private);
    let board: Arc<Mutex<Vec<(Vec<Action>, Arc<GameState>)>>> = Arc::new(Mutex::new(vec![]));
    let mut hs = vec![];
    for t in 0..3u64 {
        let root = shared.clone();
        let board = board.clone();
        hs.push(thread::spawn(move || {
            let mut x = seed.wrapping_mul(6364136223846793005).wrapping_add(t + 1) | 1;
            let mut log: Vec<(Vec<Action>, u64, u64)> = vec![];
            // expand the shared root (first request races with the other threads' first requests,
            // the second one with their late ones); the pass after a1n is a third repetition
            let l1 = list_digest(&root);
            let va = root.valid_actions();
            let first = if t == 0 { act("a1n") } else { va[(xorshift(&mut x) as usize) % va.len()] };
            let l2 = list_digest(&root);
            log.push((vec![], digest(&root), l1));
            log.push((vec![], digest(&root), l2));
            let child = Arc::new(root.take_action(&first));
            log.push((vec![first], digest(&child), list_digest(&child)));
            board.lock().unwrap().push((vec![first], child.clone()));
            // expand a state published by another thread, if there is one yet
            let other = { board.lock().unwrap().iter().find(|(p, _)| p[0] != first).map(|(p, s)| (p.clone(), s.clone())) };
            if let Some((path, st)) = other {
                log.push((path.clone(), digest(&st), list_digest(&st)));
                let va = st.valid_actions();
                if !va.is_empty() {
                    let a = va[(xorshift(&mut x) as usize) % va.len()];
                    let g = st.take_action(&a);
                    let mut p2 = path.clone();
                    p2.push(a);
                    log.push((p2, digest(&g), if g.current_step() == 3 { list_digest(&g) } else { 0 }));
                }
            }
            // play on privately for two steps
            let mut s: GameState = (*child).clone();
            let mut path = vec![first];
            for _ in 0..2 {
                let va = s.valid_actions();
                if va.is_empty() {
                    break;
                }
                let a = if s.can_pass(true) && xorshift(&mut x) % 3 == 0 { Action::Pass } else { va[(xorshift(&mut x) as usize) % va.len()] };
                s = s.take_action(&a);
                path.push(a);
                log.push((path.clone(), digest(&s), if s.is_play_phase() && s.current_step() == 3 { list_digest(&s) } else { 0 }));
            }
            // the published child is handed back to the main thread, which drops it (last owner elsewhere)
            (log, child)
        }));
    }
    let results: Vec<_> = hs.into_iter().map(|h| h.join().unwrap()).collect();
    assert_eq!(digest(&shared), root_digest, "the shared root changed");
    assert_eq!(list_digest(&shared), root_list, "the shared root answers differently after concurrent use");
    for (log, child) in results {
        for (path, d, l) in log {
            let mut s = private.clone();
            for a in &path {
                s = s.take_action(a);
            }
            assert_eq!(digest(&s), d, "concurrent result differs from sequential re-execution");
            if l != 0 || path.len() <= 1 {
                assert_eq!(list_digest(&s), l, "concurrent action list differs from sequential re-execution");
            }
        }
        drop(child);
    }
    drop(board);
    println!("ok seed {}", seed);
}
