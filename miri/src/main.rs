//! C18, part 3: the concurrent-expansion workload with real `std::thread`s, meant to run under
//! Miri (`-Zmiri-many-seeds`), whose seeded scheduler preempts at arbitrary points and whose
//! data-race detector sees what shuttle (which serialises tasks) cannot.  Shipped configuration.
//! No diagram is parsed here: the regex compilation inside GameState::from_str is too slow for
//! Miri.  The shared root is reached by a scripted game in which both sides shuffle a horse, so
//! that its history holds positions that already occurred twice: expanding it consults the
//! repetition history with mixed answers.
use arimaa_engine_step::*;
use std::sync::Arc;
use std::thread;

fn act(s: &str) -> Action {
    s.parse().unwrap()
}

fn root() -> GameState {
    let mut s = GameState::initial();
    for _ in 0..2 {
        for a in ["r", "r", "r", "r", "r", "r", "r", "r", "h", "c", "d", "m", "e", "d", "c", "h"] {
            s = s.take_action(&act(a));
        }
    }
    // gold: rabbit a2-a3, horse a1-a2; then both horses shuffle a1<->a2 and a7<->a6
    let script = [
        "a2n", "a1n", "p", "a7s", "p", //
        "a2s", "p", "a6n", "p", "a1n", "p", "a7s", "p", //
        "a2s", "p", "a6n", "p",
    ];
    for a in script {
        let a = act(a);
        // the script must be legal play (checked natively by `cargo run -p arena-miri -- check`)
        if std::env::args().nth(2).as_deref() == Some("check") {
            assert!(s.valid_actions().contains(&a), "scripted action {} not offered", a);
        }
        s = s.take_action(&a);
    }
    s
}

fn xorshift(x: &mut u64) -> u64 {
    *x ^= *x << 13;
    *x ^= *x >> 7;
    *x ^= *x << 17;
    *x
}

fn digest(s: &GameState) -> u64 {
    let mut h = s.transposition_hash() ^ (s.move_number() as u64).rotate_left(17) ^ (s.is_p1_turn_to_move() as u64);
    if let Some(pp) = s.as_play_phase() {
        for z in pp.hash_history().iter() {
            h = h.rotate_left(5) ^ z.board_state_hash();
        }
        h ^= s.current_step() as u64;
    }
    h ^ ((s.can_pass(true) as u64) << 1) ^ ((s.can_pass(false) as u64) << 2)
}

fn list_digest(s: &GameState) -> u64 {
    let mut h = 0u64;
    for a in s.valid_actions() {
        h = h.rotate_left(3) ^ a.to_string().bytes().fold(0u64, |acc, b| acc.wrapping_mul(31).wrapping_add(b as u64));
    }
    h ^ (s.is_terminal().is_some() as u64)
}

fn main() {
    let seed: u64 = std::env::args().nth(1).map(|s| s.parse().unwrap()).unwrap_or(1);
    let root = Arc::new(root());
    let root_digest = digest(&root);
    let root_list = list_digest(&root);
    let mut hs = vec![];
    for t in 0..3u64 {
        let root = root.clone();
        hs.push(thread::spawn(move || {
            let mut x = seed.wrapping_mul(6364136223846793005).wrapping_add(t + 1) | 1;
            let mut trace = vec![];
            // expand the shared root directly (shared reference); the third-repetition pass after
            // a1n is withheld, so this consults the history
            let first = if t == 0 { act("a1n") } else { let va = root.valid_actions(); va[(xorshift(&mut x) as usize) % va.len()] };
            let shared_list = list_digest(&root);
            let mut s = root.take_action(&first);
            trace.push((first, digest(&s), list_digest(&s)));
            let keep = s.clone();
            for _ in 0..3 {
                let va = s.valid_actions();
                if va.is_empty() {
                    break;
                }
                let a = if s.can_pass(true) && xorshift(&mut x) % 3 == 0 { Action::Pass } else { va[(xorshift(&mut x) as usize) % va.len()] };
                s = s.take_action(&a);
                trace.push((a, digest(&s), if s.current_step() == 3 { list_digest(&s) } else { 0 }));
            }
            // hand the kept clone back to the main thread, which drops it (last owner elsewhere)
            (trace, keep, shared_list)
        }));
    }
    let results: Vec<_> = hs.into_iter().map(|h| h.join().unwrap()).collect();
    assert_eq!(digest(&root), root_digest, "the shared root changed");
    for (trace, keep, shared_list) in results {
        assert_eq!(shared_list, root_list, "concurrent expansion of the shared root differs from sequential expansion");
        let mut s = (*root).clone();
        for (i, (a, d, l)) in trace.iter().enumerate() {
            s = s.take_action(a);
            assert_eq!(digest(&s), *d, "concurrent result differs from sequential re-execution");
            if i == 0 || s.current_step() == 3 {
                assert_eq!(list_digest(&s), *l, "concurrent action list differs from sequential re-execution");
            }
            if i == 0 {
                assert_eq!(digest(&keep), *d);
            }
        }
        drop(keep);
    }
    println!("ok seed {}", seed);
}
