//! C18, part 3: the concurrent-expansion workload with real `std::thread`s, meant to run under
//! Miri (`-Zmiri-many-seeds`), whose seeded scheduler preempts at arbitrary points and whose
//! data-race detector sees what shuttle (which serialises tasks) cannot.  Shipped configuration.
//! No text is parsed here: the regex compilation inside GameState::from_str is too slow for Miri.
use arimaa_engine_step::*;
use std::sync::Arc;
use std::thread;

fn start() -> GameState {
    let mut s = GameState::initial();
    for _ in 0..2 {
        for a in ["r", "r", "r", "r", "r", "r", "r", "r", "h", "c", "d", "m", "e", "d", "c", "h"] {
            s = s.take_action(&a.parse().unwrap());
        }
    }
    s
}

fn xorshift(x: &mut u64) -> u64 {
    *x ^= *x << 13;
    *x ^= *x >> 7;
    *x ^= *x << 17;
    *x
}

fn digest(s: &GameState) -> u64 {
    let mut h = s.transposition_hash() ^ (s.move_number() as u64).rotate_left(17) ^ (s.is_p1_turn_to_move() as u64);
    if let Some(pp) = s.as_play_phase() {
        for z in pp.hash_history().iter() {
            h = h.rotate_left(5) ^ z.board_state_hash();
        }
        h ^= s.current_step() as u64;
    }
    h ^ ((s.can_pass(true) as u64) << 1)
}

fn main() {
    let seed: u64 = std::env::args().nth(1).map(|s| s.parse().unwrap()).unwrap_or(1);
    // a root with a few turns of history, so that the list has shared links
    let mut x = seed.wrapping_mul(0x9E3779B97F4A7C15) | 1;
    let mut root = start();
    for _ in 0..3 {
        let va = root.valid_actions();
        root = root.take_action(&va[(xorshift(&mut x) as usize) % va.len()]);
        if root.can_pass(true) {
            root = root.take_action(&Action::Pass);
        }
    }
    let root = Arc::new(root);
    let root_digest = digest(&root);
    let mut hs = vec![];
    for t in 0..3u64 {
        let root = root.clone();
        hs.push(thread::spawn(move || {
            let mut x = seed.wrapping_mul(6364136223846793005).wrapping_add(t + 1) | 1;
            let mut trace = vec![];
            // expand the shared root directly (shared reference), then play on privately
            let va = root.valid_actions();
            let a = va[(xorshift(&mut x) as usize) % va.len()];
            let mut s = root.take_action(&a);
            trace.push((a, digest(&s)));
            let keep = s.clone();
            for _ in 0..3 {
                let va = s.valid_actions();
                if va.is_empty() {
                    break;
                }
                let a = if s.can_pass(true) && xorshift(&mut x) % 2 == 0 { Action::Pass } else { va[(xorshift(&mut x) as usize) % va.len()] };
                s = s.take_action(&a);
                trace.push((a, digest(&s)));
            }
            // hand the kept clone back to the main thread, which drops it (last owner elsewhere)
            (trace, keep)
        }));
    }
    let results: Vec<_> = hs.into_iter().map(|h| h.join().unwrap()).collect();
    assert_eq!(digest(&root), root_digest, "the shared root changed");
    for (trace, keep) in results {
        let mut s = (*root).clone();
        for (i, (a, d)) in trace.iter().enumerate() {
            s = s.take_action(a);
            assert_eq!(digest(&s), *d, "concurrent result differs from sequential re-execution");
            if i == 0 {
                assert_eq!(digest(&keep), *d);
            }
        }
        drop(keep);
    }
    println!("ok seed {}", seed);
}
