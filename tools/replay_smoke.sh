#!/bin/bash
# For one change per replay mode: the check must alarm, the replay file must reproduce the violation
# with the change applied (exit 1) and must not reproduce on the restored tree (exit 0).
set -u
cd /verif
trap 'git -C /repo checkout -- . 2>/dev/null' EXIT
[ -n "$(git -C /repo status --porcelain --untracked-files=no)" ] && { echo "/repo dirty"; exit 2; }
try() { # <patch file> <check>
  local patch=$1 chk=$2
  git -C /repo apply /verif/$patch || { echo "$patch does not apply"; return; }
  ./run $chk quick > /tmp/smoke.log 2>&1; local rc=$?
  local n=$(grep -c "^VIOLATION" /tmp/smoke.log)
  local files=$(grep "^VIOLATION" /tmp/smoke.log | sed 's/.*replay=//')
  for f in $files; do
    local mode=$(python3 -c "import json,sys; print(json.load(open(sys.argv[1])).get('mode','game'))" $f)
    ./run replay $f > /tmp/smoke_replay.log 2>&1; local r1=$?
    git -C /repo checkout -- .
    ./run replay $f > /tmp/smoke_replay2.log 2>&1; local r2=$?
    git -C /repo apply /verif/$patch
    echo "$(basename $patch) [$chk] check rc=$rc mode=$mode replay with change rc=$r1 (want 1), on restored tree rc=$r2 (want 0)"
  done
  [ $n -eq 0 ] && echo "$(basename $patch) [$chk] check rc=$rc NO VIOLATION LINE"
  git -C /repo checkout -- .
}




try seeded/C20-a/patch.diff C20        # stack (+ probe)


try seeded/C18-a/patch.diff C18        # shuttle
try mutants/c18_rc_instead_of_arc.patch C18      # autotraits
try mutants/c18_rc_with_unsafe_impl.patch C18    # miri
try mutants/c20_try_unwrap_drop.patch C20        # shuttle c20
