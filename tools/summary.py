#!/usr/bin/env python3
"""Regenerates the generated tables of DESIGN.md (between the markers <!-- GEN:x --> ... <!-- /GEN:x -->)
from /verif/evidence/*.json, /verif/mutants/RESULTS.tsv and /verif/seeded/*/meta.json."""
import glob, json, os, re

V = "/verif"

def evidence_table():
    rows = ["| id | tier | evaluations | distinct non-trivial | wall s | parts (runs / steps / schedules) |", "|---|---|---|---|---|---|"]
    for f in sorted(glob.glob(f"{V}/evidence/C*.json")):
        d = json.load(open(f))
        c = d["coverage"]
        parts = []
        for p in c.get("parts", []):
            bits = [p.get("part", "?")]
            for k in ("runs", "simulated_steps", "schedules", "base_texts", "lockstep_operations"):
                if k in p:
                    bits.append(f"{k}={p[k]}")
            parts.append(" ".join(bits))
        rows.append(f"| {d['property_id']} | {d['tier']} | {c['evaluations']:,} | {c['distinct_nontrivial']:,} | {d['wall_s']:.0f} | {'; '.join(parts)} |")
    return "\n".join(rows)

def mutant_table():
    path = f"{V}/mutants/RESULTS.tsv"
    if not os.path.exists(path):
        return "(not run yet)"
    latest = {}
    for line in open(path).read().splitlines()[1:]:
        f = line.split("\t")
        if len(f) < 7:
            continue
        latest[(f[0], f[3])] = f
    what = {}
    for p in glob.glob(f"{V}/mutants/*.patch"):
        n = os.path.basename(p)[:-6]
        for l in open(p):
            if l.startswith("# what:"):
                what[n] = l[7:].strip()
    rows = ["| change | what | suite | check | exit | verdict |", "|---|---|---|---|---|---|"]
    for (n, c), f in sorted(latest.items()):
        verdict = f[6].split(" violation:")[0][:60]
        rows.append(f"| {n} | {what.get(n, '')} | {f[2]} | {c} | {f[4]} | {verdict} |")
    return "\n".join(rows)

def seeded_table():
    rows = ["| id | breaks | change | needs | caught by (quick, exit 1) | ran clean |", "|---|---|---|---|---|---|"]
    for p in sorted(glob.glob(f"{V}/seeded/*/meta.json")):
        m = json.load(open(p))
        hit = [f"{c['check']} ({c['seconds']} s)" for c in m.get("checks_run_against_it", []) if c["exit"] == 1]
        miss = [c["check"] for c in m.get("checks_run_against_it", []) if c["exit"] == 0]
        rows.append(f"| {m.get('id')} | {m.get('breaks','')} | {m.get('what','')} | {m.get('needs_to_manifest','')} | {', '.join(hit)} | {', '.join(miss)} |")
    return "\n".join(rows)

def main():
    p = f"{V}/DESIGN.md"
    s = open(p).read()
    for name, fn in (("evidence", evidence_table), ("mutants", mutant_table), ("seeded", seeded_table)):
        pat = re.compile(rf"(<!-- GEN:{name} -->\n).*?(<!-- /GEN:{name} -->)", re.S)
        if pat.search(s):
            s = pat.sub(lambda m: m.group(1) + fn() + "\n" + m.group(2), s)
    open(p, "w").write(s)

if __name__ == "__main__":
    main()
