#!/bin/bash
# usage: confirm_seeded.sh <worktree id, e.g. C05> <seeded id, e.g. C05-a> <demo name> [checks to run ...]
# 1. in the scratch worktree /tmp/wt/<id>: existing suite passes with the change, demo fails with it, passes without
# 2. applies the patch to /repo, runs the named checks (quick), restores /repo
# 3. stores patch.diff, demo, notes and meta.json under /verif/seeded/<seeded id>/
set -u
wt=/tmp/wt/$1; sid=$2; demo=$3; shift 3
export CARGO_NET_OFFLINE=true
d=/verif/seeded/$sid; mkdir -p $d
cp $wt/deliver/patch.diff $d/patch.diff
cp $wt/deliver/$demo.rs $d/ 2>/dev/null || cp $wt/tests/$demo.rs $d/
cp $wt/deliver/notes.md $d/notes.md 2>/dev/null
cd $wt
# make sure the worktree has exactly the delivered patch applied
git checkout -q -- src && git apply $d/patch.diff || { echo "patch does not apply in worktree"; exit 2; }
suite=$(cargo test --offline --lib 2>&1 | grep "test result" | head -1)
doc=$(cargo test --offline --doc 2>&1 | grep "test result" | head -1)
with=$(cargo test --offline --test $demo 2>&1 | grep "test result" | head -1)
git apply -R $d/patch.diff
without=$(cargo test --offline --test $demo 2>&1 | grep "test result" | head -1)
git apply $d/patch.diff
echo "suite with change:   $suite | $doc"
echo "demo with change:    $with"
echo "demo without change: $without"
cd /verif
[ -n "$(git -C /repo status --porcelain --untracked-files=no)" ] && { echo "/repo dirty"; exit 2; }
trap 'git -C /repo checkout -- .' EXIT
git -C /repo apply $d/patch.diff || { echo "patch does not apply to /repo"; exit 2; }
results=""
for c in "$@"; do
  t0=$(date +%s); ./run $c ${TIER:-quick} > /tmp/seeded_run.log 2>&1; rc=$?; dt=$(( $(date +%s) - t0 ))
  line=$(grep -m1 -E "^violation:" /tmp/seeded_run.log | cut -c1-260)
  echo "check $c: rc=$rc ${dt}s $line"
  results="$results{\"check\": \"$c\", \"tier\": \"${TIER:-quick}\", \"exit\": $rc, \"seconds\": $dt},"
done
git -C /repo checkout -- .
python3 - "$d" "$sid" "$suite | $doc" "$with" "$without" "[${results%,}]" <<'PY'
import json, sys, os
d, sid, suite, w, wo, res = sys.argv[1:7]
meta_path = os.path.join(d, "meta.json")
meta = json.load(open(meta_path)) if os.path.exists(meta_path) else {}
meta.update({"id": sid, "confirmed": {"existing_suite_with_change": suite, "demo_with_change": w, "demo_without_change": wo},
             "checks_run_against_it": json.loads(res)})
json.dump(meta, open(meta_path, "w"), indent=1)
PY
