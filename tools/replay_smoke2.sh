#!/bin/bash
# replay smoke test for the new replay kinds: collide build, unoptimised build, Miri wide/cold phases, decoys
set -u
cd /verif
trap 'git -C /repo checkout -- . 2>/dev/null' EXIT
[ -n "$(git -C /repo status --porcelain --untracked-files=no)" ] && { echo "/repo dirty"; exit 2; }
try() {
  local patch=$1 chk=$2
  git -C /repo apply /verif/$patch || { echo "$patch does not apply"; return; }
  ./run $chk quick > /tmp/smoke.log 2>&1; local rc=$?
  local files=$(grep "^VIOLATION" /tmp/smoke.log | sed 's/.*replay=//')
  for f in $files; do
    local mode=$(python3 -c "import json,sys; d=json.load(open(sys.argv[1])); print(d.get('mode','game'), d.get('build','-'))" $f)
    ./run replay $f > /tmp/smoke_replay.log 2>&1; local r1=$?
    git -C /repo checkout -- .
    ./run replay $f > /tmp/smoke_replay2.log 2>&1; local r2=$?
    git -C /repo apply /verif/$patch
    echo "$(basename $(dirname $patch)) [$chk] check rc=$rc mode=$mode replay with change rc=$r1 (want 1), on restored tree rc=$r2 (want 0)"
  done
  [ -z "$files" ] && echo "$patch [$chk] check rc=$rc NO VIOLATION LINE"
  git -C /repo checkout -- .
}
try seeded/G1/patch.diff C02
try seeded/H5/patch.diff C19
try seeded/K5/patch.diff C20
try seeded/J5/patch.diff C18
try seeded/J1/patch.diff C01
try seeded/H3/patch.diff C11
