#!/usr/bin/env python3
"""Writes /verif/MANIFEST.json.  Edit the tables here, not the JSON."""
import json, subprocess

GAME = "seeded deterministic simulation of whole games (restart-from-durable-text and fork faults mixed in) checked step by step against an executable reference model / the recorded history"
checks = {}
def add(pid, category, text, note, technique, ref):
    checks[pid] = dict(property_id=pid, quick_cmd=f"./run {pid} quick", thorough_cmd=f"./run {pid} thorough",
        evidence_file=f"/verif/evidence/{pid}.json", replay_cmd_template="./run replay {path}", engine="arena",
        level_claimed=dict(category=category, text=text, design_ref=ref), level_note=note, technique=technique)

MODEL_NOTE = "trusted: the reference model (/verif/sim/src/model.rs, written from the rule text, shares no code with the engine), the bit<->square mapping stated in C10, the seeded sample (not exhaustive)"
add("C01","exploration","At every visited state (all step indices, every pending status, entered from many predecessors by fan-out) the engine's rule-only action list is compared as a set with the reference model's; duplicates, pass condition and push-completion non-emptiness are checked. Sampled, not exhaustive.",MODEL_NOTE,GAME+"; oracle = rule-only action set of the reference model","6/C01")
add("C02","exploration","Every applied action (chosen and fan-out) is compared with the model transition: one piece moved, exactly the unsupported trap pieces removed, material never grows, pass leaves the board unchanged.",MODEL_NOTE,GAME+"; oracle = model transition + conservation over the history","6/C02")
add("C03","exploration","Side to move, step counter, move number, pending status and per-turn record are compared with the model's counters after every operation, including restarts with move numbers up to 2^62.",MODEL_NOTE+"; starting move numbers <= 2^62",GAME+"; oracle = model turn/step/move-number counters","6/C03")
add("C04","exploration","is_terminal is compared with the official precedence order evaluated by the model at every visited state; start positions are drawn to cover all 16 goal squares, all combinations of the five conditions, and conditions that arise by play.",MODEL_NOTE,GAME+"; start positions biased to every goal square and condition combination","6/C04")
add("C05","exploration","A check over the recorded history with exact boards (no hashes, no model): every turn end, and every offered turn-ending action at every visited state, must change the board and must not create a third start-of-turn occurrence.","trusted: the recorder of observed boards; the seeded sample (sparse boards and shuffling players make repetitions frequent)",GAME+"; oracle = invariant over the recorded exact history","6/C05")
add("C06","exploration","At every visited state the offered list must equal, in order, the rule-only list minus exactly the turn-ending actions that the exact recorded history forbids.","trusted: the recorder of observed boards; the seeded sample",GAME+"; oracle = engine's own rule-only list filtered by the exact-board history","6/C06")
add("C07","exploration","Bounded liveness: an unfinished state always offers an action; mid-turn a result is reported exactly when nothing is offered; can_pass/has_move agree with the lists. Directed 'cage' scenarios reach the rare all-withheld states.","trusted: the seeded sample; the cage family for the rare states (probe reported in evidence)",GAME+"; directed cage scenarios for the all-withheld state","6/C07")
add("C08","exploration","At every visited play-phase state the transposition hash equals the from-scratch hash (public API); history-list entries equal from-scratch hashes of the recorded turn starts; states reached twice by different paths compare and hash equal.","trusted: Zobrist::from_piece_board as the definition of the from-scratch hash; the seeded sample with forks and depth-2 fan-out producing transpositions",GAME+"; fork/rollback faults create many paths to one position","6/C08")
add("C09","exploration","Every prefix of seeded placement orders (uniform and skewed) is compared with the model of setup: square filled, offered types, hand-over to Silver and to play.",MODEL_NOTE+"; 64,864,800^2 orders are sampled, coverage is reported as (mover, per-type count) classes visited",GAME+" restricted to setup","6/C09")
add("C10","exploration","Pure invariant evaluated at every state the simulation visits: all bitboards, accessors, square lookup and the printed diagram agree; material bounds; trap rule after any action.","trusted: the seeded sample of reachable states",GAME+"; per-state invariant","6/C10")
add("C12","exploration","After every step the reported push/pull status is compared with the model's; while a push is pending the rule-only list must be the model's completion set and non-empty.",MODEL_NOTE,GAME+"; oracle = model pending status","6/C12")
add("C13","exploration","Full fan-out: for every offered action at every visited state the capture preview is compared with the board difference produced by really applying it.","trusted: the seeded sample (trap-dense starts, trap-seeking players)",GAME+" with full fan-out; oracle = board difference","6/C13")
add("C14","exploration","At every visited state piece_board_for_step(i), 0<=i<=k, is compared with the recorded board after i steps of this turn, across mid-turn restarts and forks.","trusted: the recorder of observed boards; the seeded sample",GAME+"; oracle = recorder of per-step boards","6/C14")

todo = ["C11","C15","C16","C18","C19","C20"]
na = [dict(property_id="C17", reason="finite injectivity of constant hash tables with no state, history, schedule or fault in it; deciding it is complete enumeration (a different family), and sampling inside a simulation cannot decide it (DESIGN.md section 6/C17)")]
for t in todo:
    if t not in checks:
        na.append(dict(property_id=t, reason="check under construction in this session (planned, see DESIGN.md section 6); not claimed until it runs"))

hooks = dict(guard="arimaa_engine_step_verif",
    enable="RUSTFLAGS='--cfg arimaa_engine_step_verif' cargo build via the shadow manifest /verif/shadow/Cargo.toml ([lib] path=/repo/src/lib.rs, plus the seam crate /verif/seam); done by ./run for the shuttle runs and the drop-depth probe only, all sequential checks build the shipped configuration",
    baseline_off_cmd="cd /repo && cargo test --workspace --no-fail-fast --offline",
    source_commits=subprocess.run(["git","-C","/repo","log","--format=%H","--grep=^verif hook"],capture_output=True,text=True).stdout.split(),
    add_only=True)
m = dict(version=1, setup_cmd="./run setup", hooks=hooks,
    engines=[dict(name="arena", path="/verif/sim", serves_properties=sorted(checks), kind_free_text="deterministic simulator: seeded players, restart/fork/corruption faults, reference model, recorder, monitors, replay and minimisation")],
    checks=[checks[k] for k in sorted(checks)], not_applicable=na,
    notes="Exit codes: 0 held, 1 VIOLATION line printed, 2 harness error. VERIF_SEED selects the master seed (default 1).")
json.dump(m, open("/verif/MANIFEST.json","w"), indent=1)
print("wrote MANIFEST.json with", len(checks), "checks")
