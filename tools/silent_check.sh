#!/bin/bash
# usage: silent_check.sh <seeded id> : applies a property-preserving change and runs every check; all must exit 0
set -u
cd /verif
sid=$1; d=seeded/$sid
trap 'git -C /repo checkout -- . 2>/dev/null' EXIT
[ -n "$(git -C /repo status --porcelain --untracked-files=no)" ] && { echo "/repo dirty"; exit 2; }
git -C /repo apply /verif/$d/patch.diff || { echo "patch does not apply"; exit 2; }
(cd /repo && CARGO_NET_OFFLINE=true cargo test --offline 2>&1 | grep "test result" | tr '\n' ' '); echo
results=""
for c in C01 C02 C03 C04 C05 C06 C07 C08 C09 C10 C11 C12 C13 C14 C15 C16 C18 C19 C20; do
  t0=$(date +%s); ./run $c ${TIER:-quick} > /tmp/silent_run.log 2>&1; rc=$?; dt=$(( $(date +%s) - t0 ))
  line=$(grep -m1 -E "^violation:|HARNESS" /tmp/silent_run.log | cut -c1-200)
  echo "$sid [$c] rc=$rc ${dt}s $line"
  results="$results{\"check\": \"$c\", \"tier\": \"${TIER:-quick}\", \"exit\": $rc, \"seconds\": $dt},"
done
git -C /repo checkout -- .
python3 - "$d/meta.json" "$sid" "[${results%,}]" <<'PY'
import json,sys,os
p,sid,res=sys.argv[1:4]
m=json.load(open(p)) if os.path.exists(p) else {}
m.update({"id":sid,"breaks":"nothing (property-preserving refactoring: every check must stay quiet)","checks_run_against_it":json.loads(res)})
json.dump(m,open(p,"w"),indent=1)
PY
