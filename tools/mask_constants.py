#!/usr/bin/env python3
"""Hash-collision fault (F9): writes a copy of the engine's constant tables in which every hashing
constant keeps only its low BITS bits, so that the hashes of different positions collide all the
time.  usage: mask_constants.py <repo>/src <copy dir> <bits>.  Exit 3 = not applicable (the tree
has no file of hashing constants this transformation understands)."""
import os, re, shutil, sys

src, dst, bits = sys.argv[1], sys.argv[2], int(sys.argv[3])
mask = (1 << bits) - 1
name = "zobrist_values.rs"
if not os.path.isfile(os.path.join(src, name)):
    sys.exit(3)
if os.path.isdir(dst):
    shutil.rmtree(dst)
shutil.copytree(src, dst)
text = open(os.path.join(src, name)).read()
count = 0

def repl(m):
    global count
    lit = m.group(0)
    body = lit.replace("_", "")
    suffix = ""
    for s in ("u64", "usize", "u128"):
        if body.endswith(s):
            body, suffix = body[: -len(s)], s
    try:
        v = int(body, 0)
    except ValueError:
        return lit
    if v < (1 << 32):
        return lit  # array lengths, indices and the like
    count += 1
    return "0x%x%s" % (v & mask, suffix)

out = re.sub(r"\b(0b[01_]+|0x[0-9a-fA-F_]+|0o[0-7_]+|[0-9][0-9_]*)(u64|usize|u128)?\b", repl, text)
if count < 64:
    sys.exit(3)
open(os.path.join(dst, name), "w").write(out)
print("masked %d constants to %d bits" % (count, bits))
