#!/bin/bash
# Applies each patch of /verif/mutants (or the named ones) to /repo, confirms that the repository's
# own tests still pass, runs the owning checks (must alarm) or, for 'silent' patches, a set of checks
# that must stay quiet; always restores /repo.  Results: /verif/mutants/RESULTS.tsv
set -u
V=/verif
cd $V
trap 'git -C /repo checkout -- . 2>/dev/null' EXIT
if [ -n "$(git -C /repo status --porcelain --untracked-files=no)" ]; then echo "/repo has uncommitted changes; refusing" >&2; exit 2; fi
names=("$@")
if [ ${#names[@]} -eq 0 ]; then names=($(ls mutants/*.patch | xargs -n1 basename | sed 's/\.patch$//')); fi
SILENT_CHECKS="${SILENT_CHECKS:-C01 C02 C04 C05 C06 C07 C08 C11}"
TIER="${TIER:-quick}"
out=mutants/RESULTS.tsv
[ -f $out ] || printf "mutant\tmeant_to_break\ttests\tcheck\texit\tseconds\tverdict\n" > $out
for n in "${names[@]}"; do
  p=mutants/$n.patch
  props=$(grep -m1 '^# breaks:' $p | sed 's/# breaks: *//; s/,/ /g')
  if ! git -C /repo apply $V/$p 2>/tmp/apply.err; then echo "$n: patch does not apply: $(cat /tmp/apply.err)"; continue; fi
  if [ "${SKIP_TESTS:-0}" = 1 ]; then tests=skipped
  elif (cd /repo && CARGO_NET_OFFLINE=true cargo test --offline >/tmp/mut_test.log 2>&1); then tests=pass
  else
    tests=FAIL
    printf "%s\t%s\t%s\t-\t-\t-\tinvalid: the repository's own tests catch it (or it does not compile)\n" "$n" "$props" "$tests" >> $out
    echo "$n: own tests fail -> not a valid mutant"; git -C /repo checkout -- .; continue
  fi
  if [ "$props" = silent ]; then checks="$SILENT_CHECKS"; want=0; else checks="$props"; want=1; fi
  for c in $checks; do
    t0=$(date +%s)
    ./run $c $TIER >/tmp/mut_run.log 2>&1; rc=$?
    dt=$(( $(date +%s) - t0 ))
    if [ $rc -eq $want ]; then verdict=ok; else verdict="UNEXPECTED"; fi
    line=$(grep -m1 -E "^violation:" /tmp/mut_run.log | cut -c1-200)
    printf "%s\t%s\t%s\t%s\t%s\t%s\t%s %s\n" "$n" "$props" "$tests" "$c" "$rc" "$dt" "$verdict" "$line" >> $out
    echo "$n [$c] rc=$rc (want $want) ${dt}s $verdict $line"
  done
  git -C /repo checkout -- .
done
