#!/usr/bin/env python3
"""Generates /verif/mutants/<name>.patch from a table of deliberate property-breaking (and a few
property-preserving) source changes, as unified diffs against /repo's HEAD.  Each patch starts
with comment lines: which property it is meant to break (or 'silent' if it must not alarm)."""
import difflib, os, subprocess, sys

REPO = "/repo"
OUT = "/verif/mutants"

def head(path):
    return subprocess.run(["git", "-C", REPO, "show", "HEAD:" + path], capture_output=True, text=True, check=True).stdout

M = []
def mut(name, props, path, old, new, note=""):
    M.append((name, props, path, old, new, note))

E = "src/engine.rs"
# ---- C01
mut("c01_equal_push", "C01", E, "piece_type_at_bit(pushing_piece_bit, piece_board) > pushed_piece", "piece_type_at_bit(pushing_piece_bit, piece_board) >= pushed_piece", "an equally strong piece may complete a push")
mut("c01_cat_pulls_cat", "C01", E, "            Piece::Cat => piece_board.rabbits,\n", "            Piece::Cat => piece_board.rabbits | piece_board.cats,\n", "equal-strength pull offered for cats")
mut("c01_equal_pull_counts", "C01,C12", E, "                if my_piece > &their_piece {", "                if my_piece >= &their_piece {", "an equal piece displaced into the vacated square counts as a pull")
mut("c01_frozen_may_push", "C01", E, "                let predator_piece_mask = self.curr_player_non_frozen_pieces(piece_board);\n                let opp_piece_mask = self.opponent_piece_mask(piece_board);\n                let opp_threatened_pieces", "                let predator_piece_mask = self.curr_player_piece_mask(piece_board);\n                let opp_piece_mask = self.opponent_piece_mask(piece_board);\n                let opp_threatened_pieces", "a frozen piece may start a push")
mut("c01_left_support_wraps", "C01,C11", E, "    let left_supported_pieces = piece_bits & shift_pieces_left!(piece_bits);", "    let left_supported_pieces = piece_bits & shift_left!(piece_bits);", "row mask slip: a piece on the a-file is 'supported' by a friend on the h-file of the rank above")
mut("c01_push_on_third_step_only_two", "C01", E, "            if play_phase.push_pull_state.can_push() && play_phase.step() < 3 {", "            if play_phase.push_pull_state.can_push() && play_phase.step() < 2 {", "pushes may not start on the third step")
# ---- C02
mut("c02_capture_keeps_colour_bit", "C02,C10", E, "            piece_board_state.p1_pieces &= untrapped_animal_bits;\n", "", "a captured gold piece leaves its colour bit behind")
mut("c02_only_mover_side_captured", "C02,C13", E, "    supported_pieces(p1_pieces) | supported_pieces(p2_pieces)\n", "    supported_pieces(p1_pieces) | supported_pieces(p2_pieces) | (p2_pieces & shift_pieces_up!(p1_pieces))\n", "a silver piece on a trap counts as supported by a gold piece below it")
# ---- C03
mut("c03_move_number_on_gold_pass", "C03", E, "            move_number: self.move_number + if self.p1_turn_to_move { 0 } else { 1 },", "            move_number: self.move_number + if self.p1_turn_to_move { 1 } else { 0 },", "the move number grows when Gold passes")
mut("c03_move_number_fourth_step_only", "C03", E, "            + if is_last_step && new_p1_turn_to_move {", "            + if is_last_step && !new_p1_turn_to_move {", "the move number grows when Gold's fourth step ends the turn")
# ---- C04
mut("c04_h1_not_a_goal", "C04,C11", "src/bit_mask.rs", "pub const P2_OBJECTIVE_MASK: u64 = BOTTOM_ROW_MASK;", "pub const P2_OBJECTIVE_MASK: u64 = BOTTOM_ROW_MASK & !(1 << 63);", "h1 removed from Silver's goal squares")
mut("c04_a8_not_a_goal", "C04,C11", "src/bit_mask.rs", "pub const P1_OBJECTIVE_MASK: u64 = TOP_ROW_MASK;", "pub const P1_OBJECTIVE_MASK: u64 = TOP_ROW_MASK & !1;", "a8 removed from Gold's goal squares")
mut("c04_elimination_only_checks_mover", "C04", E, "        let p2_lost_rabbits = !piece_board.p1_pieces & piece_board.rabbits == 0;", "        let p2_lost_rabbits = !piece_board.p1_pieces & piece_board.rabbits & !TRAP_MASK == 0;", "a silver rabbit standing on a trap square does not count as a rabbit")
# ---- C05 / C06
mut("c05_third_repetition_at_three", "C05,C06", E, "    hash_history.iter().filter(|h| *h == hash).count() >= 2", "    hash_history.iter().filter(|h| *h == hash).count() >= 3", "a position may occur three times")
mut("c05_pass_not_recorded", "C05,C06", E, "        let new_hash_history = new_hash_history.append(hash);\n\n        GameState {", "\n        GameState {", "turn starts reached by a pass are not recorded")
mut("c06_filter_at_third_step", "C06", E, "        if play_phase.step() == 3 && !play_phase.piece_trapped_this_turn {\n            valid_actions.retain", "        if play_phase.step() >= 2 && !play_phase.piece_trapped_this_turn {\n            valid_actions.retain", "position-restoring third steps are withheld as well")
mut("c06_unchanged_rule_dropped_for_fourth_step", "C05,C06", E, "            if new_hash_no_player_switch == initial_hash_of_move\n                || hash_history_contains_hash_twice", "            if hash_history_contains_hash_twice", "a fourth step may restore the turn's starting board")
# ---- C07
mut("c07_has_move_ignores_repetition", "C07", E, "            } else if self.can_pass(true) {", "            } else if self.can_pass(false) {", "has_move counts a pass that the repetition rules withhold")
mut("c07_can_pass_during_push", "C07", E, "            play_phase.step() >= 1\n                && !play_phase.push_pull_state.is_must_complete_push()\n", "            play_phase.step() >= 1\n", "can_pass answers true while a push is pending")
# ---- C08
mut("c08_silver_trap_capture_not_hashed", "C08", "src/zobrist.rs", "            let diff_bits = prev_piece_bits ^ new_piece_bits;", "            let diff_bits = (prev_piece_bits ^ new_piece_bits) & if *is_p1 { !0 } else { !((1u64 << 42) | (1u64 << 45)) };", "silver pieces appearing on / vanishing from c3 and f3 are not hashed")
mut("c08_history_records_wrong_hash", "C08", E, "            let hash_history = new_hash_history.append(new_hash);\n            PlayPhase::initial(new_hash, hash_history)", "            let hash_history = new_hash_history.append(new_hash.exclude_step(1));\n            PlayPhase::initial(new_hash, hash_history)", "the history entry of a turn that ends by its fourth step is not the start-of-turn hash")
# ---- C09
mut("c09_nine_rabbits", "C09,C10", E, "        if (piece_board.rabbits & curr_player_pieces).count_ones() < 8 {", "        if (piece_board.rabbits & curr_player_pieces).count_ones() < 9 {", "a ninth rabbit may be placed")
mut("c09_silver_dog_quota_shared", "C09", E, "        if (piece_board.dogs & curr_player_pieces).count_ones() < 2 {", "        if (piece_board.dogs & curr_player_pieces).count_ones() < 2 && piece_board.dogs.count_ones() < 3 {", "Silver's second dog is withheld when Gold placed two")
# ---- C10
mut("c10_lookup_prefers_rabbit_board", "silent", E, "        if square_bit & self.all_pieces != 0 {\n            Some(piece_type_at_bit(square_bit, self))", "        if square_bit & (self.all_pieces | self.p1_pieces) != 0 {\n            Some(piece_type_at_bit(square_bit, self))", "square lookup also trusts the colour board (together with a stale colour bit this shows a ghost)")
# ---- C12
mut("c12_cats_never_pull", "C12,C01", E, "            && piece_type_at_bit != Piece::Rabbit\n", "            && piece_type_at_bit > Piece::Cat\n", "cats never become possible pullers")
mut("c12_rabbits_pull", "C12,C19", E, "            && !play_phase.push_pull_state.is_must_complete_push()\n            && piece_type_at_bit != Piece::Rabbit\n", "            && !play_phase.push_pull_state.is_must_complete_push()\n", "a rabbit step is reported as a possible pull")
mut("c12_push_completion_reports_pull", "C12,C01", E, "        } else if !is_opponent_piece\n            && !play_phase.push_pull_state.is_must_complete_push()\n", "        } else if !is_opponent_piece\n", "the step that completes a push is reported as a possible pull (so it could serve a pull too)")
# ---- C13
mut("c13_preview_owner_inverted", "C13", E, "                    piece_board_state.bits_for_piece(piece, true) & square.as_bit_board() != 0;", "                    piece_board_state.bits_for_piece(piece, true) & square.as_bit_board() == 0;", "the preview reports the wrong owner")
mut("c13_no_preview_on_upper_traps", "C13", E, "            let trapped_animal_bits = piece_board_state.trapped_piece_bits();\n            if trapped_animal_bits != 0 {\n                let square = Square::from_bit_board", "            let trapped_animal_bits = piece_board_state.trapped_piece_bits() & !((1u64 << 18) | (1u64 << 21));\n            if trapped_animal_bits != 0 {\n                let square = Square::from_bit_board", "captures on c6 and f6 are not previewed")
# ---- C14
mut("c14_step2_board_is_turn_start", "C14", E, "        previous_piece_boards.push(self.piece_board.clone());", "        previous_piece_boards.push(if step == 2 { play_phase.previous_piece_boards_this_move[0].clone() } else { self.piece_board.clone() });", "the board recorded for step 2 is the turn-start board")
mut("c14_step2_board_stale_during_push", "C14", E, "        previous_piece_boards.push(self.piece_board.clone());", "        if step == 2 && play_phase.push_pull_state.is_must_complete_push() { previous_piece_boards.push(previous_piece_boards[1].clone()); } else {\n        previous_piece_boards.push(self.piece_board.clone()); }", "while a push is pending at step 2 the board recorded for step 2 is a copy of the step-1 board")
mut("c12_cat_leaving_trap_no_pull", "C12,C01", E, "            && piece_type_at_bit != Piece::Rabbit\n        {", "            && piece_type_at_bit != Piece::Rabbit\n            && (source_square_bit & 0x0000_2400_0024_0000 == 0 || piece_type_at_bit != Piece::Cat)\n        {", "a cat stepping off a trap square never becomes a possible puller")
mut("c08_hash_diff_at_most_two_squares", "C08", "src/zobrist.rs", "for square in map_bit_board_to_squares(diff_bits) {\n                    value ^=", "for square in map_bit_board_to_squares(diff_bits).into_iter().take(2) {\n                    value ^=", "the incremental hash handles at most two changed squares per piece type (mover and abandoned trap piece of one type and colour make three)")
# ---- C18
mut("c18_rc_instead_of_arc", "C18", "src/linked_list.rs", "#[cfg(not(arimaa_engine_step_verif))]\nuse std::sync::Arc;", "#[cfg(not(arimaa_engine_step_verif))]\nuse std::rc::Rc as Arc;", "the history list links through Rc")
mut("c18_rc_with_unsafe_impl", "C18", "src/linked_list.rs", "#[cfg(not(arimaa_engine_step_verif))]\nuse std::sync::Arc;", "#[cfg(not(arimaa_engine_step_verif))]\nuse std::rc::Rc as Arc;\nunsafe impl<T> Send for List<T> {}\nunsafe impl<T> Sync for List<T> {}", "Rc links with unsafe impl Send/Sync to keep clients compiling")
# ---- C19
mut("c19_step_board_lookup_off_by_one", "C19,C14", E, "        if step == self.current_step() {\n            return self.piece_board.piece_board();\n        }\n\n        let previous_piece_board = &self.unwrap_play_phase().previous_piece_boards_this_move[step];", "        if step == self.current_step() && step == 0 {\n            return self.piece_board.piece_board();\n        }\n\n        let previous_piece_board = &self.unwrap_play_phase().previous_piece_boards_this_move[step];", "asking for the current step's board indexes past the recorded boards once a step has been made")
# ---- C20
mut("c20_try_unwrap_drop", "C20", "src/linked_list.rs", "            match Arc::into_inner(node) {\n                Some(mut node) => link = node.next.take(),\n                None => break,\n            }", "            match Arc::try_unwrap(node) {\n                Ok(mut node) => link = node.next.take(),\n                Err(_) => break,\n            }", "iterative drop written with try_unwrap: two concurrent owners can both fail the unwrap and the second plain drop recurses")
# ---- must stay silent (equivalent changes)
mut("silent_filter_after_capture", "silent", E, "        if play_phase.step() == 3 && !play_phase.piece_trapped_this_turn {\n            valid_actions.retain", "        if play_phase.step() == 3 {\n            valid_actions.retain", "the fourth-step filter is applied after a capture too (it can then never match)")
mut("silent_history_kept_across_captures", "silent", E, "        let new_hash_history = if new_animal_was_trapped {\n            List::new()\n        } else {\n            curr_play_phase.hash_history.clone()\n        };", "        let new_hash_history = curr_play_phase.hash_history.clone();", "the history list is not cleared at a capture by a step")
mut("silent_elimination_before_goal", "silent", E, "            self.rabbit_at_goal(piece_board)\n                // Check if player B lost all rabbits. If so player A wins.\n                // Check if player A lost all rabbits. If so player B wins.\n                .or_else(|| self.lost_all_rabbits(piece_board))", "            self.lost_all_rabbits(piece_board)\n                .or_else(|| self.rabbit_at_goal(piece_board))", "elimination tested before goal (equivalent, see DESIGN section 9)")

def main():
    os.makedirs(OUT, exist_ok=True)
    for f in os.listdir(OUT):
        if f.endswith(".patch"):
            os.remove(os.path.join(OUT, f))
    bad = 0
    for name, props, path, old, new, note in M:
        src = head(path)
        if src.count(old) != 1:
            print(f"!! {name}: pattern occurs {src.count(old)} times in {path}", file=sys.stderr)
            bad += 1
            continue
        dst = src.replace(old, new, 1)
        diff = "".join(difflib.unified_diff(src.splitlines(True), dst.splitlines(True), "a/" + path, "b/" + path))
        with open(os.path.join(OUT, name + ".patch"), "w") as f:
            f.write(f"# mutant: {name}\n# breaks: {props}\n# what: {note}\n")
            f.write(diff)
    # the three repaired defects, re-introduced
    for name, prop, commit in (("c15_defect_reintroduced", "C15", "fix: GameState::from_str"), ("c16_defect_reintroduced", "C16", "fix: action and square"), ("c20_defect_reintroduced", "C20", "fix: drop the history list")):
        h = subprocess.run(["git", "-C", REPO, "log", "--format=%H", "--grep=" + commit], capture_output=True, text=True).stdout.split()
        if not h:
            print("!! fix commit not found:", commit, file=sys.stderr)
            bad += 1
            continue
        diff = subprocess.run(["git", "-C", REPO, "diff", h[0], h[0] + "~1"], capture_output=True, text=True).stdout
        with open(os.path.join(OUT, name + ".patch"), "w") as f:
            f.write(f"# mutant: {name}\n# breaks: {prop}\n# what: the defect repaired by {h[0][:7]} re-introduced (reverse of the fix commit)\n")
            f.write(diff)
    print(f"wrote {len(os.listdir(OUT))} patches, {bad} problems")
    return 1 if bad else 0

if __name__ == "__main__":
    sys.exit(main())
