#!/bin/bash
# Re-runs every kept seeded change (/verif/seeded/<id>/patch.diff) against its owning checks with the
# current framework and rewrites "checks_run_against_it" in meta.json.  Restores /repo every time.
set -u
cd /verif
trap 'git -C /repo checkout -- . 2>/dev/null' EXIT
[ -n "$(git -C /repo status --porcelain --untracked-files=no)" ] && { echo "/repo dirty"; exit 2; }
for d in seeded/*/; do
  sid=$(basename $d)
  [ $# -gt 0 ] && [[ ! " $* " =~ " $sid " ]] && continue
  checks=$(python3 -c "
import json,re
m=json.load(open('$d/meta.json'))
cs=re.findall(r'C\d\d', m.get('breaks',''))
cs=[c for c in cs if c!='C17']
print(' '.join(dict.fromkeys(cs)))")
  [ -z "$checks" ] && continue   # property-preserving refactorings are handled by silent_check.sh
  git -C /repo apply /verif/$d/patch.diff || { echo "$sid: patch does not apply"; continue; }
  results=""
  for c in $checks; do
    t0=$(date +%s); ./run $c ${TIER:-quick} > /tmp/recheck_one.log 2>&1; rc=$?; dt=$(( $(date +%s) - t0 ))
    line=$(grep -m1 -E "^violation:" /tmp/recheck_one.log | cut -c1-160)
    echo "$sid [$c] rc=$rc ${dt}s $line"
    results="$results{\"check\": \"$c\", \"tier\": \"${TIER:-quick}\", \"exit\": $rc, \"seconds\": $dt},"
  done
  git -C /repo checkout -- .
  python3 - "$d/meta.json" "[${results%,}]" <<'PY'
import json,sys
m=json.load(open(sys.argv[1])); m["checks_run_against_it"]=json.loads(sys.argv[2]); json.dump(m,open(sys.argv[1],"w"),indent=1)
PY
done
