#!/usr/bin/env python3
"""Tiny helper for ./run: writes an evidence part or a replay file as JSON.
usage: part.py <out.json> key=value ... ; values prefixed with @ are read from a file, with # parsed as JSON"""
import json, sys
out = sys.argv[1]
d = {}
for kv in sys.argv[2:]:
    k, v = kv.split("=", 1)
    if v.startswith("@"):
        try:
            v = open(v[1:], errors="replace").read()[-20000:]
        except OSError:
            v = ""
    elif v.startswith("#"):
        v = json.loads(v[1:])
    d[k] = v
json.dump(d, open(out, "w"), indent=1)
