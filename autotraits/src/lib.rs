//! C18, part 1: the client programs that require `Send + Sync`.  Each function is one obligation;
//! the crate compiles iff every public value type of the engine can be sent to and shared between
//! threads.  Built against the shipped configuration (guard off).
use arimaa_engine_step::*;

fn need<T: Send + Sync + 'static>() {}

pub fn game_state() { need::<GameState>() }
pub fn piece_board_state() { need::<PieceBoardState>() }
pub fn piece_board() { need::<PieceBoard>() }
pub fn play_phase() { need::<PlayPhase>() }
pub fn phase() { need::<Phase>() }
pub fn push_pull_state() { need::<PushPullState>() }
pub fn action() { need::<Action>() }
pub fn square() { need::<Square>() }
pub fn piece() { need::<Piece>() }
pub fn direction() { need::<Direction>() }
pub fn terminal() { need::<Terminal>() }
pub fn zobrist() { need::<Zobrist>() }
pub fn history_list() { need::<List<Zobrist>>() }
pub fn history_iter() { need::<linked_list::Iter<'static, Zobrist>>() }

/// a state moved into a spawned thread and a state shared by reference between scoped threads
pub fn programs(s: GameState) {
    let shared = std::sync::Arc::new(s.clone());
    let a = shared.clone();
    let h = std::thread::spawn(move || a.valid_actions().len());
    let h2 = std::thread::spawn(move || s.is_terminal().is_some());
    std::thread::scope(|sc| {
        sc.spawn(|| shared.transposition_hash());
        sc.spawn(|| shared.valid_actions_no_rep().len());
    });
    let _ = (h.join(), h2.join());
}
